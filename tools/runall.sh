#!/bin/bash
# usage: tools/runall.sh [quick|thorough]   -- runs every registered check once, prints one summary line per check
cd "$(dirname "$0")/.."
TIER="${1:-quick}"
rc=0
for id in $(python3 -c "import json;print(' '.join(c['property_id'] for c in json.load(open('MANIFEST.json'))['checks']))"); do
  out=$(./vk check "$id" --tier "$TIER" 2>&1); code=$?
  echo "$out" | grep -E "^\[$id |^VIOLATION|^HARNESS" | cut -c1-220
  [ $code -ne 0 ] && rc=1
done
exit $rc

HOOK_COMMITS = ["4bf1060"]  # fix: commits e843be5 c06c015 0900edf 3f63130 are unguarded repairs, not hooks
MC_NOTE = ("Trusted: CPython 3.12, numpy/pandas/pydantic as installed, the laws of the RNG primitives "
           "(random.sample uniform, random.choices / np.random.choice categorical), the reference models in engine/refs.py. "
           "Small-scope bounds as stated in the evidence file; nothing is claimed beyond them.")
TABLE = {
 "C10": dict(level="model_checking", engine="chooser",
   technique="exhaustive exploration of all scripted RNG outcomes of every non-random rule; structural oracle on every recorded tiebreak; exact law of resolutions",
   text="Every non-random rule configuration is run on every profile of the families under every outcome of every random draw. A run that consumed a random choice must record a tiebreak; every recorded tiebreak must concern candidates tied on the deciding tally, straddle the decision, and be obeyed by the round's groups; 'borda'/'first_place' resolutions must be exactly the orders consistent with that score, equally likely among still-tied candidates (path probabilities). Membership of real-RNG outcomes in the scripted outcome set validates the RNG seam.",
   note=MC_NOTE),
 "C13": dict(level="model_checking", engine="chooser",
   technique="paired exhaustive exploration under identical choice vectors (aliases) and exact outcome distributions (TopTwo, Alaska vs separately constructed components)",
   text="IRV/SNTV/SequentialRCV are run side by side with STV(m=1)/Plurality/STV(full-weight transfer) under every choice vector and must record identical rounds; TopTwo's exact winner distribution must equal a reference composition; Alaska's exact distribution over complete round records must equal that of a real Plurality stage followed by a separately constructed real STV on the reduced profile, rounds renumbered.",
   note=MC_NOTE),
 "C17": dict(level="model_checking", engine="chooser",
   technique="complete enumeration of the RNG choice tree with exact edge probabilities; law of the winner sequence as a finite sum vs closed form",
   text="For every profile of the family and every m the complete choice tree of RandomDictator / BoostedRandomDictator is enumerated; the probability of every winner sequence (sum of path probabilities, exact Fractions; 1e-12 for the float squares) must equal the documented seat-by-seat law. Random tiebreaks: all |T|! resolutions with probability 1/|T|!, and equal seat/elimination probabilities for tied candidates in Plurality, Borda and first-round STV ties.",
   note=MC_NOTE),
 "C03": dict(level="model_checking", engine="chooser+lockstep",
   technique="exhaustive enumeration of ballot lists x winners x thresholds x all random.sample outcomes (exact selection law); round-by-round vote accounting on all STV runs",
   text="The transfer functions are called directly on every ordered ballot list of a bounded family for every winner and threshold; for the random rule every outcome of the selection is explored and the exact law of the selected sub-collection (path probabilities as Fractions) is compared with 'every (tally-threshold)-subset of the transferable ballots equally likely'. Every STV run of the C02 family is additionally checked round by round for conservation (drop = threshold consumed + exhausted weight).",
   note=MC_NOTE),
 "C07": dict(level="model_checking", engine="chooser",
   technique="exhaustive exploration of all tiebreak / random-transfer outcomes of STV on bounded profile families; axiom oracle over all candidate subsets",
   text="For every profile of the family, every m, both election modes and both transfer rules, every path of the RNG choice tree is executed on the real code and the Droop proportionality inequality is evaluated for every non-empty proper candidate subset; the IRV majority criterion likewise. The oracle uses only the ballots.",
   note=MC_NOTE),
 "C01": dict(level="model_checking", engine="chooser+lockstep",
   technique="exhaustive exploration of all RNG outcomes of every rule on bounded profile families; per-round invariants + reference tie oracles",
   text="Every rule class x every profile of the stated families x every configuration x every outcome of every random draw is executed on the real code. On every path: termination within a step horizon, exactly m winners, the elected/remaining/eliminated partition and status monotonicity at every recorded round, and exception discipline (ValueError exactly when a reference model reports a tie straddling the last seat with tiebreak None; nothing else escapes). Genuine defects found are listed in known_findings.json by signature.",
   note=MC_NOTE),
 "C02": dict(level="model_checking", engine="chooser+lockstep",
   technique="exhaustive exploration of every RNG outcome of the real STV code + lock-step refinement against a reference transition system",
   text="Every profile of a stated finite family x every configuration x every outcome of every random tiebreak / random transfer is executed on the real code; each recorded round must be a legal step of a nondeterministic reference model of the documented count (exact rationals), and the set of complete traces must equal the reference's. This covers all branches of all tiebreaks, which no seeded test can.",
   note=MC_NOTE),
}

HOOK_COMMITS = ["4bf1060"]
MC_NOTE = ("Trusted: CPython 3.12, numpy/pandas/pydantic as installed, the laws of the RNG primitives "
           "(random.sample uniform, random.choices / np.random.choice categorical), the reference models in engine/refs.py. "
           "Small-scope bounds as stated in the evidence file; nothing is claimed beyond them.")
TABLE = {
 "C02": dict(level="model_checking", engine="chooser+lockstep",
   technique="exhaustive exploration of every RNG outcome of the real STV code + lock-step refinement against a reference transition system",
   text="Every profile of a stated finite family x every configuration x every outcome of every random tiebreak / random transfer is executed on the real code; each recorded round must be a legal step of a nondeterministic reference model of the documented count (exact rationals), and the set of complete traces must equal the reference's. This covers all branches of all tiebreaks, which no seeded test can.",
   note=MC_NOTE),
}

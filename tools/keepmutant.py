#!/usr/bin/env python3
"""usage: tools/keepmutant.py <src-dir> <seeded-name> <property> <wave> <caught_by,comma> <breaks...> [--strengthening TEXT]
Files a confirmed seeded change under seeded/<name>/ (patch.diff, demo.py, notes.md, meta.json)."""
import json, os, shutil, sys
src, name, prop, wave, caught = sys.argv[1:6]
rest = sys.argv[6:]
strengthening = None
if "--strengthening" in rest:
    i = rest.index("--strengthening")
    strengthening = " ".join(rest[i + 1:])
    rest = rest[:i]
d = os.path.join(os.path.dirname(os.path.abspath(__file__)), "..", "seeded", name)
os.makedirs(d, exist_ok=True)
for f in ("patch.diff", "demo.py", "notes.md"):
    shutil.copy(os.path.join(src, f), os.path.join(d, f))
meta = {
    "property": prop,
    "breaks": " ".join(rest),
    "source": f"independent sub-agent ({wave} wave)",
    "confirmed": "patch applies to /repo HEAD; demo.py exits 0 on the unchanged tree and non-zero with the patch; repository tests (374) pass with the patch (sub-agent run)",
    "ran": f"tools/trywt.sh <scratch worktree with the patch> {' '.join(caught.split(','))}",
    "caught_by": caught.split(","),
}
if strengthening:
    meta["strengthening"] = strengthening
json.dump(meta, open(os.path.join(d, "meta.json"), "w"), indent=1)
print("kept", d)

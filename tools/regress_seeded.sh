#!/bin/bash
# usage: tools/regress_seeded.sh [name-prefix ...]
# For every kept seeded change: apply it in a private scratch worktree of /repo (VK_REPO), run the quick checks listed
# in its meta.json (caught_by) there, and report whether each of them still raises a violation.  /repo itself and
# /verif/evidence are not touched (evidence and replays of these runs go to the scratch directory).
cd "$(dirname "$0")/.."
VERIF="$PWD"
FAILED=0
for d in seeded/*/; do
  name=$(basename "$d")
  if [ $# -gt 0 ]; then match=0; for p in "$@"; do [[ "$name" == $p* ]] && match=1; done; [ $match -eq 0 ] && continue; fi
  checks=$(python3 -c "import json;print(' '.join(json.load(open('$d/meta.json'))['caught_by']))")
  wt=/tmp/vk-seeded-$$-$name
  git -C /repo worktree add --detach "$wt" HEAD -q || { echo "$name: cannot create worktree"; FAILED=1; continue; }
  if ! git -C "$wt" apply "$VERIF/$d/patch.diff" 2>/dev/null; then echo "$name: PATCH DOES NOT APPLY"; FAILED=1; git -C /repo worktree remove --force "$wt"; continue; fi
  for id in $checks; do
    out=$(VK_REPO="$wt" VK_EVIDENCE_DIR="$wt/.vk-evidence" VK_REPLAY_DIR="$wt/.vk-replays" ./vk check "$id" --tier quick 2>&1); code=$?
    line=$(echo "$out" | grep "^\[$id " | tail -1)
    if [ $code -eq 1 ]; then echo "$name: $id DETECTS   $line"; else echo "$name: $id MISSES (exit $code)   $line"; FAILED=1; fi
  done
  git -C /repo worktree remove --force "$wt"
done
git -C /repo worktree prune
exit $FAILED

#!/bin/bash
# usage: tools/trywt.sh <worktree-with-change-applied> <ID> [<ID>...]
# Runs the quick checks against a scratch worktree (VK_REPO); /repo and /verif/evidence are not touched.
WT="$(readlink -f "$1")"; shift
cd "$(dirname "$0")/.."
S=$(mktemp -d /tmp/vk-trywt.XXXXXX)
for id in "$@"; do
  VK_REPO="$WT" VK_EVIDENCE_DIR="$S/ev" VK_REPLAY_DIR="$S/rp" ./vk check "$id" --tier "${TIER:-quick}" 2>&1 | grep -v "^KNOWN-FINDING" | cut -c1-400 | tail -${LINES_OUT:-8}
done
rm -rf "$S"

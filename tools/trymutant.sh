#!/bin/bash
# usage: tools/trymutant.sh <patch.diff> <ID> [<ID>...]   -- applies the patch to /repo, runs the quick checks, reverts.
P="$(readlink -f "$1")"; shift
cd /repo || exit 2
if ! git diff --quiet; then echo "/repo is dirty, refusing"; exit 2; fi
if ! git apply "$P" 2>/tmp/apply.err; then echo "PATCH DOES NOT APPLY"; cat /tmp/apply.err; git checkout -- . ; exit 3; fi
git reset -q 2>/dev/null
for id in "$@"; do
  ( cd /verif && ./vk check "$id" --tier "${TIER:-quick}" 2>&1 | grep -v "^KNOWN-FINDING" | cut -c1-400 | tail -${LINES_OUT:-12} )
done
cd /repo && git checkout -- . && git status --short | head -3

#!/usr/bin/env python3
"""Regenerates /verif/MANIFEST.json from the table below and the check modules present."""
import json, os, sys
HERE = os.path.dirname(os.path.dirname(os.path.abspath(__file__)))
sys.path.insert(0, HERE)
from tools.manifest_table import TABLE, HOOK_COMMITS

props = [json.loads(l) for l in open(os.path.join(HERE, "properties.jsonl"))]
checks, na = [], []
for p in props:
    pid = p["id"]
    row = TABLE.get(pid)
    have = os.path.exists(os.path.join(HERE, "checks", pid.lower() + ".py"))
    if row and have and not row.get("not_applicable"):
        checks.append({
            "property_id": pid,
            "quick_cmd": f"./vk check {pid} --tier quick",
            "thorough_cmd": f"./vk check {pid} --tier thorough",
            "evidence_file": f"/verif/evidence/{pid}.json",
            "replay_cmd_template": "./vk replay {path}",
            "engine": row["engine"],
            "level_claimed": {"category": row["level"], "text": row["text"], "design_ref": f"DESIGN.md section 4, {pid}"},
            "level_note": row["note"],
            "technique": row["technique"],
        })
    else:
        na.append({"property_id": pid, "reason": (row or {}).get("not_applicable") or
                   "check not built yet in this round (design in DESIGN.md section 4); not claimed until its check exists"})
man = {
    "version": 1,
    "setup_cmd": "./setup.sh",
    "hooks": {
        "guard": "VOTEKIT_VERIF",
        "enable": "environment variable VOTEKIT_VERIF=nodf (set by ./vk); sources are imported from /repo/src, nothing is built",
        "baseline_off_cmd": "cd /repo && env -u VOTEKIT_VERIF /venv/bin/python -m pytest -ra -q -p no:cacheprovider --timeout=900 --continue-on-collection-errors",
        "source_commits": HOOK_COMMITS,
        "add_only": True,
    },
    "engines": [
        {"name": "chooser", "path": "engine/chooser.py", "serves_properties": ["C01","C02","C03","C07","C10","C13","C14","C16","C17","C05","C06"],
         "kind_free_text": "stateless exhaustive exploration of the RNG choice tree of the real code (scripted random / numpy.random), exact path probabilities"},
        {"name": "lockstep", "path": "engine/lockstep.py", "serves_properties": ["C01","C02","C03","C13"],
         "kind_free_text": "lock-step refinement of implementation rounds against a nondeterministic reference transition system (engine/refs.py), subset construction"},
        {"name": "families", "path": "engine/families.py", "serves_properties": [p["id"] for p in props],
         "kind_free_text": "bounded-exhaustive input families with closed-form sizes"},
        {"name": "runner", "path": "engine/runner.py", "serves_properties": [p["id"] for p in props],
         "kind_free_text": "sharding over 16 processes, known-findings triage, replay files, evidence"},
    ],
    "checks": checks,
    "not_applicable": na,
    "notes": "All checks import votekit from /repo/src (the wheel in /venv is shadowed and the harness aborts if it is imported instead). Exit 2 = harness error.",
}
json.dump(man, open(os.path.join(HERE, "MANIFEST.json"), "w"), indent=1)
print("claimed:", [c["property_id"] for c in checks])
print("not claimed:", [n["property_id"] for n in na])

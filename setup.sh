#!/bin/bash
# setup_cmd: nothing to build (pure Python); verify the interpreter, the import path and the validator.
set -e
HERE="$(cd "$(dirname "${BASH_SOURCE[0]}")" && pwd)"
cd "$HERE"
mkdir -p evidence replays .scratch
VK_REPO="${VK_REPO:-/repo}"
PYTHONPATH="$VK_REPO/src:$HERE/stubs:$HERE" PYTHONHASHSEED=0 PYTHONDONTWRITEBYTECODE=1 /venv/bin/python -W ignore - <<PY
import os, votekit, numpy
src = os.path.realpath("$VK_REPO/src")
assert os.path.realpath(votekit.__file__).startswith(src), votekit.__file__
import votekit.ballot_generator, votekit.elections
print("votekit from", votekit.__file__, "numpy", numpy.__version__)
PY
python3-vt -c "import jsonschema" && echo "jsonschema ok"
./vk selftest | tail -1
echo setup ok

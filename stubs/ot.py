"""Stub for the POT package (not installed, not in the wheelhouse).

votekit.metrics imports `ot` at import time; only `earth_mover_dist` uses it and no
verified property mentions that function.
"""


def emd(*args, **kwargs):
    raise NotImplementedError("POT (ot) is not installed in this sandbox")


def emd2(*args, **kwargs):
    raise NotImplementedError("POT (ot) is not installed in this sandbox")

"""`./vk selftest` -- binds the reference models to literal examples documented in the repository
(the STV example of tests/elections/election_types/ranking/test_stv.py, docstring semantics of the
scoring utilities, the Huntington-Hill and ballot-graph definitions) before they are used as oracles.
"""

from __future__ import annotations

from fractions import Fraction as F


def main():
    from engine import refs
    from checks import gens
    from checks.c19 import ref_ballot_graph

    fails = []

    def check(name, cond):
        print(("ok   " if cond else "FAIL ") + name)
        if not cond:
            fails.append(name)

    # --- STV wiki example (test_stv.py: simult_same_as_one_by_one_profile, m=3, droop) -------------
    cs = ("Orange", "Pear", "Strawberry", "Cake", "Chocolate", "Burger", "Chicken")
    r = lambda *xs: tuple((x,) for x in xs)
    case = (cs, ((r("Orange", "Pear"), 3), (r("Pear", "Strawberry", "Cake"), 8), (r("Strawberry", "Orange", "Pear"), 1),
                 (r("Cake", "Chocolate"), 3), (r("Chocolate", "Cake", "Burger"), 1), (r("Burger", "Chicken"), 4),
                 (r("Chicken", "Chocolate", "Burger"), 3)))
    for sim in (True, False):
        cfg = refs.STVConfig(3, "droop", sim, None, "fractional", case)
        check(f"STV example: droop threshold is 6 (simultaneous={sim})", cfg.thr == 6)
        traces = refs.ref_traces(case, cfg)
        documented = [
            ("elect", frozenset({"Pear"}), None, {"Burger": 4, "Orange": 3, "Cake": 3, "Chicken": 3, "Strawberry": 3, "Chocolate": 1}),
            ("elim", frozenset(), "Chocolate", {"Burger": 4, "Orange": 3, "Cake": 4, "Chicken": 3, "Strawberry": 3}),
            ("elim", frozenset(), "Strawberry", {"Burger": 4, "Orange": 4, "Cake": 6, "Chicken": 3}),
            ("elect", frozenset({"Cake"}), None, {"Burger": 4, "Orange": 4, "Chicken": 3}),
            ("elim", frozenset(), "Chicken", {"Burger": 7, "Orange": 4}),
            ("elect", frozenset({"Burger"}), None, {"Orange": 4}),
        ]
        want = tuple((k, e, x, tuple(sorted((c, F(v)) for c, v in t.items()))) for k, e, x, t in documented)
        check(f"STV example: the documented rounds are a trace of the reference count (simultaneous={sim})",
              any(tr[: len(want)] == want and tr[-1] == ("END",) for tr in traces))
        check(f"STV example: the reference count is deterministic here (simultaneous={sim})", len(traces) == 1)
    # --- positional scoring: ties share the average, unlisted share the rest ---------------------------
    c3 = ("A", "B", "C")
    check("Borda: A>B>C scores 3,2,1", refs.ref_borda((c3, ((r("A", "B", "C"), 1),))) == {"A": 3, "B": 2, "C": 1})
    check("Borda: bullet vote A gives the others (2+1)/2", refs.ref_borda((c3, ((r("A"), 2),))) == {"A": 6, "B": 3, "C": 3})
    check("Borda: three-way tie gives 2 each", refs.ref_borda((c3, (((("A", "B", "C"),), 1),))) == {"A": 2, "B": 2, "C": 2})
    check("first-place votes: tie for first splits the vote",
          refs.ref_fpv((c3, (((("A", "B"),), 1),))) == {"A": F(1, 2), "B": F(1, 2), "C": 0})
    check("vector longer than the candidate list is truncated",
          refs.ref_positional((c3, ((r("A"), 1),)), [3, 2, 2, 2, 2]) == {"A": 3, "B": 2, "C": 2})
    # --- top-m ---------------------------------------------------------------------------------------
    t = refs.TopM({"A": 3, "B": 2, "C": 2}, 2)
    check("TopM: tie for the second seat straddles", t.straddles and t.sure == {"A"} and t.tied == {"B", "C"})
    # --- pairwise / tiers ----------------------------------------------------------------------------------
    cyc = (c3, ((r("A", "B", "C"), 1), (r("B", "C", "A"), 1), (r("C", "A", "B"), 1)))
    m = refs.ref_pairwise(cyc)
    check("Condorcet cycle: every margin is 1 and the Smith set is everyone",
          m[("A", "B")] == 1 and m[("B", "C")] == 1 and m[("C", "A")] == 1 and refs.ref_tiers(c3, m) == [frozenset(c3)])
    check("bullet vote: listed beats unlisted, unlisted tie", refs.ref_pairwise((c3, ((r("A"), 2),)))[("A", "B")] == 2
          and refs.ref_pairwise((c3, ((r("A"), 2),)))[("B", "C")] == 0)
    # --- Huntington-Hill -----------------------------------------------------------------------------------
    check("HH: 10 seats by (.5,.3,.2) = (5,3,2)", gens.ref_hh([0.5, 0.3, 0.2], 10) == {(5, 3, 2)})
    check("HH: equal priorities give a set", gens.ref_hh([0.5, 0.5], 3) == {(2, 1), (1, 2)})
    check("HH: a zero share gets nothing", gens.ref_hh([1.0, 0.0], 3) == {(3, 0)})
    # --- ballot graph -----------------------------------------------------------------------------------------
    n3, e3 = ref_ballot_graph(3)
    check("ballot graph n=3: 9 nodes (3 bullets + 6 full), 12 edges (6 swaps + 6 bullet links)", len(n3) == 9 and len(e3) == 12)
    n4, e4 = ref_ballot_graph(4)
    check("ballot graph n=4: 4 + 12 + 24 nodes", len(n4) == 40)
    # --- closed forms --------------------------------------------------------------------------------------------
    pl = gens.pl_law({"a": 0.5, "b": 0.3, "c": 0.2})
    check("PL: P(a,b,c) = .5 * .3/.5", abs(pl[("a", "b", "c")] - 0.5 * 0.6) < 1e-15 and abs(sum(pl.values()) - 1) < 1e-12)
    bt = gens.bt_table({"a": 0.75, "b": 0.25})
    check("BT on two candidates: P(a>b) = .75", abs(bt[("a", "b")] - 0.75) < 1e-15)
    # --- scripted RNG: integer part of a scaled uniform -----------------------------------------------------------
    from engine import chooser
    import math

    law = {}
    for p in chooser.explore_all(lambda: (int(chooser.s_random() * 3), math.floor(chooser.s_uniform(0, 1) * 4 + 0.5))):
        law[p.result] = law.get(p.result, 0) + p.prob
    m1 = {k: sum(v for (a, _), v in law.items() if a == k) for k in range(3)}
    m2 = {k: sum(v for (_, b), v in law.items() if b == k) for k in range(5)}
    check("lazy uniform: int(u*3) is uniform on {0,1,2}; floor(4u+1/2) has law (1/8,1/4,1/4,1/4,1/8)",
          m1 == {0: F(1, 3), 1: F(1, 3), 2: F(1, 3)} and m2 == {0: F(1, 8), 1: F(1, 4), 2: F(1, 4), 3: F(1, 4), 4: F(1, 8)})
    print("selftest:", "all ok" if not fails else f"{len(fails)} FAILED")
    return 1 if fails else 0

"""X3 -- lock-step refinement of an STV-family election against refs.legal_steps.

`follow(states, exc, case, cfg)` walks the recorded rounds of one implementation run (a
path of the choice tree) through the nondeterministic reference transition system,
keeping the *set* of reference states compatible with what was observed so far (subset
construction: two reference branches may be observationally equal).
"""

from __future__ import annotations

from fractions import Fraction

from . import refs
from .refs import NEEDS_TB, OUT_OF_DOMAIN


class Verdict:
    __slots__ = ("status", "msg", "round", "trace", "ref_states", "transitions", "end_kinds",
                 "exhaust", "steps_taken", "ood_reason", "ignored_tie", "per_round")

    def __init__(self):
        self.status = "ok"  # ok | violation | out_of_domain
        self.msg = ""
        self.round = None
        self.trace = ()
        self.ref_states = set()
        self.transitions = 0
        self.end_kinds = set()
        self.exhaust = []
        self.steps_taken = []  # per round: kind of the matched step(s)
        self.ood_reason = None
        self.per_round = []  # per_round[r] = list of reference states compatible after round r
        self.ignored_tie = False  # the run went on where the reference needs a tiebreak


def _nonempty(groups):
    return tuple(frozenset(g) for g in groups if len(g) > 0)


def observe_round(st):
    """(elected set, eliminated cand or None, tallies dict, remaining groups, tiebreaks)."""
    rn, remaining, elected, eliminated, tiebreaks, scores = st
    E = frozenset(c for g in elected for c in g)
    X = [c for g in eliminated for c in g]
    return E, X, dict(scores), _nonempty(remaining), tiebreaks


def follow(states, exc, case, cfg):
    """states: canon_election() output (possibly partial if the constructor raised exc)."""
    v = Verdict()
    cs = case[0]
    init = (refs.linear(case), frozenset(cs), 0)
    cur = {refs.state_key(init): init}
    v.per_round.append([init])
    v.ref_states.add(refs.state_key(init))
    trace = []

    def fail(r, msg):
        v.status = "violation"
        v.round = r
        v.msg = msg
        v.trace = tuple(trace)
        return v

    if not states:
        if exc is None:
            return fail(0, "no election states recorded")
    else:
        E, X, sc, rem, tbs = observe_round(states[0])
        t0 = refs.tallies(init[0], init[1])
        if sc != t0:
            return fail(0, f"round 0 tallies {sc} != first-place weights {t0}")
        if rem != _nonempty(refs.groups_desc(t0)):
            return fail(0, f"round 0 order {rem} is not the tally order of {t0}")
        if E or X or tbs:
            return fail(0, "round 0 records elected/eliminated/tiebreaks")

    for r in range(1, len(states)):
        E, X, sc, rem, tbs = observe_round(states[r])
        if states[r][0] != r:
            return fail(r, f"round_number {states[r][0]} recorded for round {r}")
        nxt = {}
        legal_desc = []
        kinds = set()
        for st in cur.values():
            if st[2] >= cfg.m:
                legal_desc.append("count already complete")
                continue
            for step in refs.legal_steps(st, cfg):
                if step.kind == OUT_OF_DOMAIN:
                    v.status = "out_of_domain"
                    v.ood_reason = step.reason
                    v.round = r
                    v.trace = tuple(trace)
                    return v
                if step.kind == NEEDS_TB:
                    v.ignored_tie = True
                    legal_desc.append(f"tie {sorted(step.tie)} needs a tiebreak -> ValueError")
                    continue
                legal_desc.append(
                    f"{step.kind} elected={sorted(step.elected)} eliminated={step.eliminated}"
                )
                xs = [step.eliminated] if step.eliminated is not None else []
                if step.elected != E or xs != X:
                    continue
                # tiebreak record
                if step.tie is not None:
                    if len(tbs) != 1 or frozenset(tbs[0][0]) != step.tie:
                        legal_desc.append(f"  (tiebreak record {tbs} does not name tie {sorted(step.tie)})")
                        continue
                    res = tbs[0][1]
                    if any(len(g) != 1 for g in res):
                        legal_desc.append(f"  (resolution {res} is not a strict order)")
                        continue
                    order = tuple(g[0] for g in res)
                    if not step.resolution_ok(order):
                        legal_desc.append(f"  (resolution {order} not consistent with the documented tiebreak)")
                        continue
                elif tbs:
                    legal_desc.append(f"  (tiebreak {tbs} recorded where no tie was broken)")
                    continue
                for succ in step.succs:
                    if refs.tallies(succ[0], succ[1]) == sc:
                        nxt[refs.state_key(succ)] = succ
                        kinds.add(step.kind)
                        v.transitions += 1
        if nxt:
            v.ignored_tie = False
        if not nxt:
            return fail(
                r,
                f"round {r}: elected={sorted(E)} eliminated={X} tallies={ {k: str(x) for k, x in sc.items()} } "
                f"tiebreaks={tbs} is not a legal step; legal: {legal_desc[:8]}",
            )
        if rem != _nonempty(refs.groups_desc(sc)):
            return fail(r, f"round {r}: reported order {rem} is not the tally order of {sc}")
        trace.append((E, X[0] if X else None, tuple(sorted(sc.items()))))
        v.steps_taken.append(tuple(sorted(kinds)))
        cur = nxt
        v.per_round.append(list(cur.values()))
        v.ref_states.update(cur.keys())

    v.trace = tuple(trace)
    # how did the run end?
    if exc is None:
        if not all(st[2] >= cfg.m for st in cur.values()):
            # maybe the reference still wants to act
            pend = []
            for st in cur.values():
                if st[2] < cfg.m:
                    pend += [s.kind for s in refs.legal_steps(st, cfg)]
            if OUT_OF_DOMAIN in pend:
                v.status = "out_of_domain"
                v.ood_reason = "pending"
                return v
            return fail(len(states), f"count stopped with seats unfilled; reference continues with {pend}")
        v.end_kinds = {"END"}
        return v
    # constructor raised
    pend = set()
    for st in cur.values():
        if st[2] >= cfg.m:
            pend.add("END")
        else:
            for s in refs.legal_steps(st, cfg):
                pend.add(s.kind)
                if s.kind == OUT_OF_DOMAIN:
                    v.ood_reason = s.reason
    v.end_kinds = pend
    if OUT_OF_DOMAIN in pend:
        v.status = "out_of_domain"
        return v
    if isinstance(exc, ValueError) and NEEDS_TB in pend:
        v.trace = tuple(trace) + ((NEEDS_TB,),)
        return v
    return fail(
        len(states),
        f"{type(exc).__name__}: {exc} raised where the documented count continues with {sorted(pend)}",
    )


def ref_trace_set(case, cfg):
    """Reference traces without the step kind, split into (complete, ood_prefixes)."""
    full = refs.ref_traces(case, cfg)
    comp = set()
    ood = set()
    for tr in full:
        body = tuple((o[1], o[2], o[3]) for o in tr[:-1])
        end = tr[-1][0]
        if end == OUT_OF_DOMAIN:
            ood.add(body)
        elif end == NEEDS_TB:
            comp.add(body + ((NEEDS_TB,),))
        else:
            comp.add(body)
    return comp, ood


def has_ood_prefix(trace, ood):
    body = tuple(o for o in trace if o != (NEEDS_TB,))
    for k in range(len(body) + 1):
        if body[:k] in ood:
            return True
    return False

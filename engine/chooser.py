"""E1 -- the scripted chooser.

Every entry point of `random` and `numpy.random` that votekit can reach is replaced by a
function that asks a single global `Chooser` for its answer.  A run of the code under test
is then a path in a finite tree; `explore()` enumerates *all* paths of that tree by
re-execution with a forced prefix (stateless exploration), attaching to every edge the
exact probability it has under the documented law of the primitive.

When the chooser is not active the patched functions delegate to the real primitives, so
that importing votekit and the "seam conformance" runs see the real libraries.

Install with `install()` BEFORE votekit is imported (default arguments such as
`Spatial(voter_dist=np.random.uniform)` must capture the scripted functions).
"""

from __future__ import annotations

import itertools
import math
import random as _random
from fractions import Fraction

import numpy as _np


class UncontrolledRandomness(Exception):
    """An RNG entry point the harness does not script was reached (harness error)."""


class ReplayDivergence(Exception):
    """While replaying a forced prefix the run asked a different question (harness error)."""


class PathLimit(Exception):
    """A single case has more paths than the stated cap (reported, never silently cut)."""


class Chooser:
    def __init__(self):
        self.active = False
        self.prefix = ()
        self.pos = 0
        self.trace = []  # [arity, choice, prob, label]
        self.calls = 0  # number of RNG primitives called (including arity-1 ones)
        self.branching = 0  # number of choice points with arity > 1
        self.sample_mode = "auto"  # "auto" | "ordered" | "multiset"
        self.grid = None  # finite grid for continuous draws (spatial models)
        self.dirichlet_menu = None
        self.dirichlet_log = []
        self.values = []  # human readable record of outcome values

    # -- run control ----------------------------------------------------------------
    def begin(self, prefix=()):
        self.active = True
        self.prefix = tuple(prefix)
        self.pos = 0
        self.trace = []
        self.calls = 0
        self.branching = 0
        self.dirichlet_log = []
        self.values = []

    def end(self):
        self.active = False
        if self.pos < len(self.prefix):
            raise ReplayDivergence(
                f"run consumed {self.pos} choices, prefix has {len(self.prefix)}"
            )

    # -- the single choice primitive ---------------------------------------------------
    def choose(self, arity, probs=None, label=""):
        """Return an index in range(arity).  probs: sequence of probabilities or None = uniform."""
        if arity <= 0:
            raise ValueError("choice among zero alternatives")
        self.calls += 1
        if arity == 1:
            return 0
        self.branching += 1
        if self.pos < len(self.prefix):
            c = self.prefix[self.pos]
            if not (0 <= c < arity):
                raise ReplayDivergence(
                    f"forced choice {c} out of range {arity} at {self.pos} ({label})"
                )
        else:
            c = 0
        self.pos += 1
        if probs is None:
            p = Fraction(1, arity)
        else:
            p = probs[c]
        self.trace.append((arity, c, p, label))
        return c

    def note(self, v):
        if len(self.values) < 64:
            self.values.append(v)

    def path_prob(self):
        p = Fraction(1)
        for _, _, q, _ in self.trace:
            p = p * q
        return p

    def choices(self):
        return tuple(c for _, c, _, _ in self.trace)


CH = Chooser()


# ------------------------------------------------------------------------------------
# lazy uniforms
# ------------------------------------------------------------------------------------
class LazyUniform:
    """A U[lo,hi) variate that is only ever *compared* with numbers.

    Each comparison with a threshold t strictly inside the current interval is a binary
    choice point with exact conditional probabilities; the interval is refined.
    Measure-zero boundaries are ignored.  Arithmetic on the value is not supported and
    is reported as uncontrolled randomness.
    """

    __slots__ = ("lo", "hi")

    def __init__(self, lo=0.0, hi=1.0):
        self.lo = lo
        self.hi = hi

    def _below(self, t):
        """True iff value < t (choice point when t is strictly inside)."""
        try:
            if not isinstance(t, Fraction):  # exact thresholds (from LazyAffine) are kept exact
                t = float(t)
        except Exception as e:  # pragma: no cover
            raise UncontrolledRandomness(f"lazy uniform compared with {t!r}") from e
        if t != t:
            return False
        if t <= self.lo:
            return False
        if t >= self.hi:
            return True
        pb = (t - self.lo) / (self.hi - self.lo)
        # Thresholds within 1e-12 (relative) of an end of the interval are rounding artefacts of float sums such as
        # 0.6 + 0.3 + 0.1 = 1 - 2**-53; a real generator (53-bit grid) essentially never lands beyond them, so such a
        # comparison is answered without creating a branch of probability ~1e-16.
        if pb > 1 - 1e-12:
            self.hi = min(self.hi, t)
            return True
        if pb < 1e-12:
            self.lo = max(self.lo, t)
            return False
        try:
            pbq = Fraction(t) - Fraction(self.lo)
            pbq = pbq / (Fraction(self.hi) - Fraction(self.lo))
        except Exception:
            pbq = pb
        c = CH.choose(2, (pbq, 1 - pbq), label="uniform<%.6g" % float(t))
        if c == 0:
            self.hi = t
            CH.note(("u<", t))
            return True
        self.lo = t
        CH.note(("u>=", t))
        return False

    def __lt__(self, t):
        return self._below(t)

    def __le__(self, t):
        return self._below(t)

    def __gt__(self, t):
        return not self._below(t)

    def __ge__(self, t):
        return not self._below(t)

    def _no(self, *a, **k):
        raise UncontrolledRandomness("arithmetic on a lazy uniform variate")

    # positive affine images a*u + b stay lazy (see LazyAffine): `int(random() * n)` is a uniform integer choice
    def __mul__(self, k):
        return LazyAffine(self, 1, 0) * k

    __rmul__ = __mul__

    def __truediv__(self, k):
        return LazyAffine(self, 1, 0) / k

    def __add__(self, k):
        return LazyAffine(self, 1, 0) + k

    __radd__ = __add__

    def __sub__(self, k):
        return LazyAffine(self, 1, 0) - k

    def __int__(self):
        return int(LazyAffine(self, 1, 0))

    __trunc__ = __int__

    def __floor__(self):
        return LazyAffine(self, 1, 0).__floor__()

    __rsub__ = __rtruediv__ = __float__ = __pow__ = _no
    __eq__ = _no
    __hash__ = None

    def __repr__(self):
        return f"LazyUniform[{self.lo},{self.hi})"


class LazyAffine:
    """a*u + b for a lazy uniform u and exact numbers a > 0, b.

    Comparisons are forwarded to u (exactly, in rationals); taking the integer part is a choice point over the integer
    cells the image interval meets, each with its exact conditional probability, and refines u to that cell.
    """

    __slots__ = ("u", "a", "b")
    MAX_CELLS = 64

    def __init__(self, u, a, b):
        self.u, self.a, self.b = u, Fraction(a), Fraction(b)

    @staticmethod
    def _num(k):
        if isinstance(k, bool) or not isinstance(k, (int, float, Fraction)) and not hasattr(k, "__float__"):
            raise UncontrolledRandomness(f"arithmetic on a lazy uniform variate with {k!r}")
        if isinstance(k, (LazyUniform, LazyAffine)):
            raise UncontrolledRandomness("arithmetic between two lazy uniform variates")
        k = Fraction(k) if isinstance(k, (int, Fraction)) else Fraction(float(k))
        return k

    def __mul__(self, k):
        k = self._num(k)
        if k <= 0:
            raise UncontrolledRandomness("lazy uniform variate scaled by a non-positive number")
        return LazyAffine(self.u, self.a * k, self.b * k)

    __rmul__ = __mul__

    def __truediv__(self, k):
        k = self._num(k)
        if k <= 0:
            raise UncontrolledRandomness("lazy uniform variate divided by a non-positive number")
        return LazyAffine(self.u, self.a / k, self.b / k)

    def __add__(self, k):
        return LazyAffine(self.u, self.a, self.b + self._num(k))

    __radd__ = __add__

    def __sub__(self, k):
        return LazyAffine(self.u, self.a, self.b - self._num(k))

    def _thr(self, t):
        # a*u + b < t  <=>  u < (t - b)/a, kept as an exact rational
        return (Fraction(float(t)) - self.b) / self.a

    def __lt__(self, t):
        return self.u._below(self._thr(t))

    __le__ = __lt__

    def __gt__(self, t):
        return not self.u._below(self._thr(t))

    __ge__ = __gt__

    def __floor__(self):
        lo = self.a * Fraction(self.u.lo) + self.b
        hi = self.a * Fraction(self.u.hi) + self.b
        first = lo.numerator // lo.denominator
        last = -((-hi.numerator) // hi.denominator) - 1  # largest integer strictly below hi
        if last < first:
            last = first
        if last - first + 1 > self.MAX_CELLS:
            raise UncontrolledRandomness(f"integer part of a lazy uniform variate over {last - first + 1} cells")
        for k in range(first, last):
            if self.__lt__(k + 1):
                return k
        return last

    def __int__(self):
        lo = self.a * Fraction(self.u.lo) + self.b
        if lo < 0:
            raise UncontrolledRandomness("int() of a lazy uniform variate that may be negative")
        return self.__floor__()

    __trunc__ = __int__

    def _no(self, *a, **k):
        raise UncontrolledRandomness("arithmetic on a lazy uniform variate")

    __rsub__ = __rtruediv__ = __float__ = __pow__ = __eq__ = _no
    __hash__ = None

    def __repr__(self):
        return f"LazyAffine({self.a}*{self.u!r}+{self.b})"


# ------------------------------------------------------------------------------------
# real primitives, kept for delegation / argument validation
# ------------------------------------------------------------------------------------
_REAL = {}


def _real_random(name):
    return _REAL["random." + name]


def _real_np(name):
    return _REAL["np." + name]


# ------------------------------------------------------------------------------------
# scripted `random`
# ------------------------------------------------------------------------------------
def _multiset_selections(counts, k):
    """All vectors (k_1..k_g) with 0<=k_i<=counts[i], sum k_i = k."""
    g = len(counts)

    def rec(i, left):
        if i == g - 1:
            if left <= counts[i]:
                yield (left,)
            return
        for ki in range(min(counts[i], left) + 1):
            for rest in rec(i + 1, left - ki):
                yield (ki,) + rest

    if g == 0:
        if k == 0:
            yield ()
        return
    yield from rec(0, k)


def s_sample(population, k, *, counts=None):
    if not CH.active:
        return _real_random("sample")(population, k, counts=counts)
    if counts is not None:
        raise UncontrolledRandomness("random.sample(counts=...)")
    # argument validation by the real primitive (raises exactly as the library would)
    _random.Random(0).sample(population, k)
    pop = list(population)
    n = len(pop)
    # group by object identity: the *same* object repeated is indistinguishable
    ids = {}
    for i, x in enumerate(pop):
        ids.setdefault(id(x) if not isinstance(x, (str, int)) else ("v", x), []).append(i)
    repeated = any(len(v) > 1 for v in ids.values())
    mode = CH.sample_mode
    if mode == "auto":
        mode = "multiset" if repeated else "ordered"
    if mode == "ordered":
        out = []
        avail = list(range(n))
        for j in range(k):
            c = CH.choose(len(avail), None, label=f"sample[{j}/{k} of {n}]")
            out.append(avail.pop(c))
        CH.note(("sample", tuple(out)))
        return [pop[i] for i in out]
    # multiset mode: enumerate sub-multisets over identity groups, exact multivariate
    # hypergeometric probability; result returned in population order.
    groups = list(ids.values())
    cnts = [len(g) for g in groups]
    sels = list(_multiset_selections(cnts, k))
    tot = math.comb(n, k)
    probs = []
    for sel in sels:
        w = 1
        for ci, ki in zip(cnts, sel):
            w *= math.comb(ci, ki)
        probs.append(Fraction(w, tot))
    c = CH.choose(len(sels), probs, label=f"sample-multiset[{k} of {n} in {len(groups)} groups]")
    sel = sels[c]
    idx = []
    for g, ki in zip(groups, sel):
        idx.extend(g[:ki])
    idx.sort()
    CH.note(("sample-ms", sel))
    return [pop[i] for i in idx]


def _categorical(weights, label):
    """Pick an index with probability proportional to weights (zero-weight entries excluded)."""
    idx = [i for i, w in enumerate(weights) if w > 0]
    tot = sum(weights[i] for i in idx)
    exact = all(isinstance(weights[i], (int, Fraction)) for i in idx)
    if exact:
        probs = [Fraction(weights[i]) / Fraction(tot) for i in idx]
    else:
        probs = [float(weights[i]) / float(tot) for i in idx]
    c = CH.choose(len(idx), probs, label=label)
    return idx[c]


def s_choices(population, weights=None, *, cum_weights=None, k=1):
    if not CH.active:
        return _real_random("choices")(population, weights, cum_weights=cum_weights, k=k)
    if cum_weights is not None:
        raise UncontrolledRandomness("random.choices(cum_weights=...)")
    # validation by the real primitive
    _random.Random(0).choices(population, weights, k=k)
    pop = list(population)
    n = len(pop)
    out = []
    for j in range(k):
        if weights is None:
            c = CH.choose(n, None, label=f"choices[{j}] of {n}")
        else:
            w = list(weights)
            if not any(x > 0 for x in w):
                # real library raises ValueError("Total of weights must be greater than zero")
                raise ValueError("Total of weights must be greater than zero")
            c = _categorical(w, f"choices-w[{j}] of {n}")
        out.append(pop[c])
        CH.note(("choices", c))
    return out


def s_choice(seq):
    if not CH.active:
        return _real_random("choice")(seq)
    if len(seq) == 0:
        raise IndexError("Cannot choose from an empty sequence")
    c = CH.choose(len(seq), None, label=f"choice of {len(seq)}")
    return seq[c]


def _permute_inplace(x, label):
    n = len(x)
    items = list(x)
    avail = list(range(n))
    order = []
    for j in range(n):
        c = CH.choose(len(avail), None, label=f"{label}[{j}/{n}]")
        order.append(avail.pop(c))
    for j, i in enumerate(order):
        x[j] = items[i]
    CH.note((label, tuple(order)))


def s_shuffle(x):
    if not CH.active:
        return _real_random("shuffle")(x)
    _permute_inplace(x, "shuffle")


def s_randrange(start, stop=None, step=1):
    if not CH.active:
        return _real_random("randrange")(start, stop, step) if stop is not None else _real_random("randrange")(start)
    rng = range(start) if stop is None else range(start, stop, step)
    if len(rng) == 0:
        raise ValueError("empty range for randrange()")
    if len(rng) > 4096:
        raise UncontrolledRandomness(f"random.randrange over {len(rng)} values")
    c = CH.choose(len(rng), None, label=f"randrange of {len(rng)}")
    CH.note(("randrange", rng[c]))
    return rng[c]


def s_randint(a, b):
    if not CH.active:
        return _real_random("randint")(a, b)
    return s_randrange(a, b + 1)


def n_randint(low, high=None, size=None, dtype=int):
    if not CH.active:
        return _real_np("randint")(low, high, size)
    _np.random.RandomState(0).randint(low, high, size)
    lo, hi = (0, int(low)) if high is None else (int(low), int(high))
    n = hi - lo
    if n > 4096:
        raise UncontrolledRandomness(f"np.random.randint over {n} values")
    if size is None:
        return lo + CH.choose(n, None, label=f"np.randint of {n}")
    if isinstance(size, (int, _np.integer)):
        return _np.asarray([lo + CH.choose(n, None, label=f"np.randint[{j}] of {n}") for j in range(int(size))])
    raise UncontrolledRandomness("np.random.randint with a shape")


def n_rand(*shape):
    if not CH.active:
        return _real_np("rand")(*shape)
    if len(shape) == 0:
        return n_random()
    if len(shape) == 1:
        return n_random(shape[0])
    raise UncontrolledRandomness("np.random.rand with a shape")


def s_random():
    if not CH.active:
        return _real_random("random")()
    CH.calls += 1
    return LazyUniform(0.0, 1.0)


def s_uniform(a, b):
    if not CH.active:
        return _real_random("uniform")(a, b)
    CH.calls += 1
    return LazyUniform(float(a), float(b))


def _trap(name):
    def f(*a, **k):
        if not CH.active:
            return _REAL[name](*a, **k)
        raise UncontrolledRandomness(name)

    f.__name__ = name.split(".")[-1]
    return f


# ------------------------------------------------------------------------------------
# scripted `numpy.random`
# ------------------------------------------------------------------------------------
def _np_wrap(a, picks):
    """Mirror numpy's return type for choice over an array-like."""
    arr = _np.asarray(a)
    return arr[picks]


def n_choice(a, size=None, replace=True, p=None):
    if not CH.active:
        return _real_np("choice")(a, size=size, replace=replace, p=p)
    # argument validation by the real primitive
    _np.random.RandomState(0).choice(a, size=size, replace=replace, p=p)
    if isinstance(a, (int, _np.integer)):
        n = int(a)
        pop = _np.arange(n)
    else:
        pop = _np.asarray(a)
        if pop.ndim != 1:
            raise UncontrolledRandomness("np.random.choice on a non 1-d array")
        n = len(pop)
    if size is None:
        kk = 1
    elif isinstance(size, (int, _np.integer)):
        kk = int(size)
    else:
        raise UncontrolledRandomness("np.random.choice with a shape")
    if p is None:
        w = [1] * n
    else:
        w = [float(x) for x in p]
    picks = []
    if replace:
        for j in range(kk):
            picks.append(_categorical(w, f"np.choice[{j}] of {n}"))
    else:
        w = list(w)
        for j in range(kk):
            i = _categorical(w, f"np.choice-norepl[{j}/{kk}] of {n}")
            picks.append(i)
            w[i] = 0
    CH.note(("np.choice", tuple(picks)))
    if size is None:
        return pop[picks[0]]
    return pop[_np.asarray(picks, dtype=int)]


def n_shuffle(x):
    if not CH.active:
        return _real_np("shuffle")(x)
    _permute_inplace(x, "np.shuffle")


def n_permutation(x):
    if not CH.active:
        return _real_np("permutation")(x)
    if isinstance(x, (int, _np.integer)):
        arr = list(range(int(x)))
    else:
        arr = list(x)
    _permute_inplace(arr, "np.permutation")
    return _np.asarray(arr)


def _lazy_array(n, lo=0.0, hi=1.0):
    out = _np.empty(n, dtype=object)
    for i in range(n):
        out[i] = LazyUniform(lo, hi)
    return out


def _grid_draw(size, label):
    """Draw `size` values (int, tuple or None) from the finite grid CH.grid."""
    g = list(CH.grid)
    if size is None:
        c = CH.choose(len(g), None, label=label)
        CH.note((label, g[c]))
        return g[c]
    shape = (size,) if isinstance(size, (int, _np.integer)) else tuple(size)
    n = 1
    for s in shape:
        n *= int(s)
    vals = []
    for j in range(n):
        c = CH.choose(len(g), None, label=f"{label}[{j}]")
        vals.append(g[c])
    CH.note((label, tuple(vals)))
    return _np.asarray(vals, dtype=float).reshape(shape)


def n_uniform(low=0.0, high=1.0, size=None):
    if not CH.active:
        return _real_np("uniform")(low, high, size)
    if CH.grid is not None:
        # validation as the real library (e.g. dict passed as size -> TypeError)
        _np.random.RandomState(0).uniform(low, high, size)
        return _grid_draw(size, "np.uniform-grid")
    _np.random.RandomState(0).uniform(low, high, size)
    CH.calls += 1
    if size is None:
        return LazyUniform(float(low), float(high))
    if isinstance(size, (int, _np.integer)):
        return _lazy_array(int(size), float(low), float(high))
    raise UncontrolledRandomness("np.random.uniform with a shape outside grid mode")


def n_random(size=None):
    if not CH.active:
        return _real_np("random")(size)
    CH.calls += 1
    if size is None:
        return LazyUniform(0.0, 1.0)
    if isinstance(size, (int, _np.integer)):
        return _lazy_array(int(size))
    raise UncontrolledRandomness("np.random.random with a shape")


def n_normal(loc=0.0, scale=1.0, size=None):
    if not CH.active:
        return _real_np("normal")(loc, scale, size)
    _np.random.RandomState(0).normal(loc, scale, size)
    if CH.grid is None:
        raise UncontrolledRandomness("np.random.normal outside grid mode")
    return _grid_draw(size, "np.normal-grid")


class ScriptedGenerator:
    """Stand-in for numpy.random.Generator; only `dirichlet` is scripted."""

    def dirichlet(self, alpha, size=None):
        alpha = [float(a) for a in alpha]
        # validation as the real library
        _REAL["np.default_rng"](0).dirichlet(alpha, size)
        if size is not None:
            raise UncontrolledRandomness("dirichlet with size")
        CH.dirichlet_log.append(tuple(alpha))
        n = len(alpha)
        centre = _np.asarray([a / sum(alpha) for a in alpha])
        menu = [centre]
        if CH.dirichlet_menu is not None:
            menu = CH.dirichlet_menu(alpha)
        elif min(alpha) < 1e10 and n > 1:
            skew = _np.asarray([(i + 1.0) for i in range(n)])
            skew = skew / skew.sum()
            menu = [centre, skew]
        c = CH.choose(len(menu), [Fraction(1, len(menu))] * len(menu), label=f"dirichlet[{n}]")
        CH.note(("dirichlet", c))
        return _np.asarray(menu[c], dtype=float)

    # the other Generator methods votekit could plausibly switch to are routed to the same scripted primitives
    def choice(self, a, size=None, replace=True, p=None, **kw):
        return n_choice(a, size=size, replace=replace, p=p)

    def random(self, size=None, **kw):
        return n_random(size)

    def uniform(self, low=0.0, high=1.0, size=None):
        return n_uniform(low, high, size)

    def normal(self, loc=0.0, scale=1.0, size=None):
        return n_normal(loc, scale, size)

    def integers(self, low, high=None, size=None, **kw):
        return n_randint(low, high, size)

    def shuffle(self, x, **kw):
        return n_shuffle(x)

    def permutation(self, x, **kw):
        return n_permutation(x)

    def __getattr__(self, name):
        raise UncontrolledRandomness(f"Generator.{name}")


def n_default_rng(seed=None):
    if not CH.active:
        return _REAL["np.default_rng"](seed)
    return ScriptedGenerator()


# ------------------------------------------------------------------------------------
_SCRIPTED_RANDOM = {
    "sample": s_sample,
    "choices": s_choices,
    "choice": s_choice,
    "shuffle": s_shuffle,
    "random": s_random,
    "uniform": s_uniform,
    "randrange": s_randrange,
    "randint": s_randint,
}
_TRAP_RANDOM = [
    "getrandbits", "randbytes", "triangular", "gauss",
    "normalvariate", "lognormvariate", "expovariate", "vonmisesvariate", "gammavariate",
    "betavariate", "paretovariate", "weibullvariate", "binomialvariate",
]
_SCRIPTED_NP = {
    "choice": n_choice,
    "shuffle": n_shuffle,
    "permutation": n_permutation,
    "uniform": n_uniform,
    "random": n_random,
    "random_sample": n_random,
    "normal": n_normal,
    "default_rng": n_default_rng,
    "randint": n_randint,
    "rand": n_rand,
}
_TRAP_NP = [
    "randn", "random_integers", "ranf", "sample", "bytes", "beta",
    "binomial", "chisquare", "dirichlet", "exponential", "f", "gamma", "geometric",
    "hypergeometric", "lognormal", "logseries", "multinomial", "multivariate_normal",
    "negative_binomial", "noncentral_chisquare", "noncentral_f", "pareto", "poisson",
    "power", "rayleigh", "standard_cauchy", "standard_exponential", "standard_gamma",
    "standard_normal", "standard_t", "triangular", "vonmises", "wald", "weibull", "zipf",
]
# laplace / logistic / gumbel are only *referenced* by votekit (identity tests), they are
# trapped as well:
_TRAP_NP += ["laplace", "logistic", "gumbel"]

for _f, _n in ((s_sample, "sample"), (s_choices, "choices"), (s_choice, "choice"), (s_shuffle, "shuffle"), (s_random, "random"),
               (s_uniform, "uniform"), (n_choice, "choice"), (n_shuffle, "shuffle"), (n_permutation, "permutation"),
               (n_uniform, "uniform"), (n_random, "random"), (n_normal, "normal"), (n_default_rng, "default_rng"),
               (s_randrange, "randrange"), (s_randint, "randint"), (n_randint, "randint"), (n_rand, "rand")):
    _f.__name__ = _n  # votekit inspects voter_dist.__name__
del _f, _n

_installed = False


def install():
    global _installed
    if _installed:
        return
    _installed = True
    for name, fn in _SCRIPTED_RANDOM.items():
        _REAL["random." + name] = getattr(_random, name)
        setattr(_random, name, fn)
    for name in _TRAP_RANDOM:
        if hasattr(_random, name):
            _REAL["random." + name] = getattr(_random, name)
            setattr(_random, name, _trap("random." + name))
    for name, fn in _SCRIPTED_NP.items():
        _REAL["np." + name] = getattr(_np.random, name)
        setattr(_np.random, name, fn)
    for name in _TRAP_NP:
        if hasattr(_np.random, name):
            _REAL["np." + name] = getattr(_np.random, name)
            setattr(_np.random, name, _trap("np." + name))
    _REAL["random.seed"] = _random.seed
    _REAL["np.seed"] = _np.random.seed


def real_seed(s):
    """Seed the real generators (used by seam-conformance runs, chooser inactive)."""
    _random.seed(s)
    _np.random.seed(s)


# ------------------------------------------------------------------------------------
# stateless exploration
# ------------------------------------------------------------------------------------
class Path:
    __slots__ = ("result", "exc", "trace", "prob", "calls", "branching", "values", "dirichlet")

    def __init__(self, result, exc, ch):
        self.result = result
        self.exc = exc
        self.trace = tuple(ch.trace)
        self.prob = ch.path_prob()
        self.calls = ch.calls
        self.branching = ch.branching
        self.values = tuple(ch.values)
        self.dirichlet = tuple(ch.dirichlet_log)

    @property
    def choices(self):
        return tuple(c for _, c, _, _ in self.trace)


HARNESS_ERRORS = (UncontrolledRandomness, ReplayDivergence, PathLimit)


BEGIN_HOOKS = []  # callables run at the start of every execution (e.g. reset the step horizon)


def run_once(fn, prefix=()):
    """Run fn() under the scripted chooser with the forced prefix; returns a Path."""
    for h in BEGIN_HOOKS:
        h()
    CH.begin(prefix)
    res = exc = None
    try:
        res = fn()
    except HARNESS_ERRORS:
        CH.active = False
        raise
    except RecursionError:
        CH.active = False
        raise
    except Exception as e:  # the code under test raised: that is an observation
        exc = e
    finally:
        CH.active = False
    if exc is None and CH.pos < len(CH.prefix):
        raise ReplayDivergence(
            f"run consumed {CH.pos} choices, forced prefix has {len(CH.prefix)}"
        )
    return Path(res, exc, CH)


def explore(fn, max_paths=200000, deviation_bound=None):
    """Yield one Path per complete path of the choice tree of fn (depth first).

    deviation_bound: if given, only paths with at most that many non-default answers.
    """
    stack = [()]
    n = 0
    while stack:
        prefix = stack.pop()
        path = run_once(fn, prefix)
        n += 1
        if n > max_paths:
            raise PathLimit(f"more than {max_paths} paths")
        yield path
        tr = path.trace
        ch = [c for _, c, _, _ in tr]
        # replay check: the forced prefix must have been honoured
        if tuple(ch[: len(prefix)]) != tuple(prefix):
            raise ReplayDivergence("prefix not honoured")
        devs_prefix = sum(1 for c in prefix if c != 0)
        for i in range(len(tr) - 1, len(prefix) - 1, -1):
            if deviation_bound is not None and devs_prefix + 1 > deviation_bound:
                break
            for alt in range(tr[i][0] - 1, 0, -1):
                stack.append(tuple(ch[:i]) + (alt,))


def explore_all(fn, max_paths=200000, deviation_bound=None):
    paths = list(explore(fn, max_paths, deviation_bound))
    if deviation_bound is None:
        tot = sum(p.prob for p in paths)
        if isinstance(tot, Fraction):
            if tot != 1:
                raise ReplayDivergence(f"path probabilities sum to {tot}, not 1")
        elif abs(tot - 1) > 1e-9:
            raise ReplayDivergence(f"path probabilities sum to {tot}, not 1")
    return paths

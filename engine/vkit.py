"""Adapter between harness-level cases and the real votekit objects.

Importing this module installs the scripted chooser, imports votekit from $VK_REPO/src and
refuses to continue if `votekit` resolves anywhere else (DESIGN F1).
"""

from __future__ import annotations

import os
import sys
from fractions import Fraction

from . import chooser

chooser.install()

VK_REPO = os.environ.get("VK_REPO", "/repo")

import votekit  # noqa: E402

_src = os.path.realpath(os.path.join(VK_REPO, "src"))
if not os.path.realpath(votekit.__file__).startswith(_src + os.sep):
    sys.stderr.write(
        f"HARNESS ERROR: votekit imported from {votekit.__file__}, expected under {_src}\n"
    )
    sys.exit(2)

from votekit.ballot import Ballot  # noqa: E402
from votekit.pref_profile import PreferenceProfile  # noqa: E402
from votekit import elections as E  # noqa: E402
from votekit.elections import transfers as T  # noqa: E402
from votekit.models import Election  # noqa: E402


# votekit prints progress chatter ("Initial tiebreak was unsuccessful ...") to stdout, which
# is where the VIOLATION protocol lives: give the chatty modules a module-level no-op `print`
# (shadows the builtin for that module only; nothing under /repo is touched).
import votekit.utils as _vu  # noqa: E402
import votekit.pref_profile as _vpp  # noqa: E402


def _quiet(*a, **k):
    return None


_vu.print = _quiet
_vpp.print = _quiet


class HorizonExceeded(Exception):
    """An election did not finish within the step horizon (a verdict, not a hang)."""


_STEPS = [0]
STEP_LIMIT = 64
SEEN = []  # election objects in the order in which they first ran a recorded step


def reset_steps():
    _STEPS[0] = 0
    del SEEN[:]


chooser.BEGIN_HOOKS.append(reset_steps)


def _wrap_run_step(cls):
    orig = cls.__dict__.get("_run_step")
    if orig is None or getattr(orig, "_vk_wrapped", False):
        return

    def _run_step(self, profile, prev_state, store_states=False):
        if store_states:
            if not any(x is self for x in SEEN):
                SEEN.append(self)
            _STEPS[0] += 1
            if _STEPS[0] > STEP_LIMIT:
                raise HorizonExceeded(
                    f"{type(self).__name__}: more than {STEP_LIMIT} rounds"
                )
        return orig(self, profile, prev_state, store_states)

    _run_step._vk_wrapped = True
    _run_step.__wrapped__ = orig
    cls._run_step = _run_step


def _all_subclasses(c):
    for s in c.__subclasses__():
        yield s
        yield from _all_subclasses(s)


for _c in list(_all_subclasses(Election)):
    _wrap_run_step(_c)


# ------------------------------------------------------------------------------------
def mk_ballot(ranking, weight=1, scores=None, **kw):
    r = tuple(frozenset(p) for p in ranking) if ranking is not None else None
    if scores is not None:
        return Ballot(ranking=r, weight=weight, scores=scores, **kw)
    return Ballot(ranking=r, weight=weight, **kw)


def mk_profile(case):
    cs, bl = case
    return PreferenceProfile(
        ballots=tuple(mk_ballot(r, w) for r, w in bl), candidates=tuple(cs)
    )


def mk_score_profile(cs, ballots):
    """ballots: ((scores dict, weight), ...)"""
    return PreferenceProfile(
        ballots=tuple(Ballot(scores=dict(s), weight=w) for s, w in ballots),
        candidates=tuple(cs),
    )


def canon_ranking(r):
    """votekit ranking (tuple of frozensets) -> harness ranking."""
    if r is None:
        return None
    return tuple(tuple(sorted(p)) for p in r)


def canon_groups(g):
    return tuple(tuple(sorted(s)) for s in g)


def canon_profile(p):
    """Multiset of (ranking, scores) -> weight, plus candidates (sorted)."""
    d = {}
    for b in p.ballots:
        key = (
            canon_ranking(b.ranking),
            tuple(sorted(b.scores.items())) if b.scores else None,
        )
        d[key] = d.get(key, Fraction(0)) + b.weight
    return (tuple(sorted(p.candidates)), tuple(sorted(d.items(), key=repr)))


def canon_state(s):
    return (
        s.round_number,
        canon_groups(s.remaining),
        canon_groups(s.elected),
        canon_groups(s.eliminated),
        tuple(
            sorted(
                (tuple(sorted(k)), tuple(tuple(sorted(x)) for x in v))
                for k, v in s.tiebreaks.items()
            )
        ),
        tuple(sorted(s.scores.items())),
    )


def canon_election(e):
    return tuple(canon_state(s) for s in e.election_states)


def flat(groups):
    return [c for g in groups for c in g]


def exc_where(exc):
    """Innermost votekit frame of a traceback: 'file.py:function'."""
    tb = exc.__traceback__
    where = None
    while tb is not None:
        fn = tb.tb_frame.f_code.co_filename
        if os.sep + "votekit" + os.sep in fn:
            where = os.path.basename(fn) + ":" + tb.tb_frame.f_code.co_name
        tb = tb.tb_next
    return where or "?"


def jsonable(x):
    if isinstance(x, Fraction):
        return str(x)
    if isinstance(x, (frozenset, set)):
        return sorted(jsonable(y) for y in x)
    if isinstance(x, (tuple, list)):
        return [jsonable(y) for y in x]
    if isinstance(x, dict):
        return {str(k): jsonable(v) for k, v in x.items()}
    if isinstance(x, (str, int, float, bool)) or x is None:
        return x
    return repr(x)


# ------------------------------------------------------------------------------------
# rule registry: name -> constructor taking (profile, **cfg)
# ------------------------------------------------------------------------------------
def full_transfer(winner, fpv, ballots, threshold):
    """Harness-written 'pass the winner's ballots on at full weight' (C13)."""
    from votekit.utils import remove_cand

    return remove_cand(winner, tuple(ballots))


TRANSFERS = {
    "fractional": T.fractional_transfer,
    "random": T.random_transfer,
    "full": full_transfer,
}


def make_election(rule, profile, cfg):
    cfg = dict(cfg)
    if rule == "STV":
        tr = TRANSFERS[cfg.pop("transfer", "fractional")]
        return E.STV(profile, transfer=tr, **cfg)
    if rule == "Alaska":
        tr = TRANSFERS[cfg.pop("transfer", "fractional")]
        return E.Alaska(profile, transfer=tr, **cfg)
    cls = getattr(E, rule)
    return cls(profile, **cfg)


def election_fn(rule, case, cfg):
    """Closure that builds the profile and runs the election (to be explored).

    If the constructor raises, the rounds recorded so far by the outermost election are
    attached to the exception as `_vk_partial`.
    """

    def fn():
        reset_steps()
        prof = mk_profile(case)
        try:
            return make_election(rule, prof, cfg)
        except chooser.HARNESS_ERRORS:
            raise
        except Exception as ex:
            try:
                ex._vk_partial = canon_election(SEEN[0]) if SEEN else ()
            except Exception:
                ex._vk_partial = ()
            try:
                ex._vk_partial_all = [
                    (type(x).__name__, canon_election(x), canon_profile(x._profile))
                    for x in SEEN
                ]
            except Exception:
                ex._vk_partial_all = []
            raise

    return fn


class hook_off:
    """Context manager: run with the VOTEKIT_VERIF guard off (hook equivalence runs)."""

    def __enter__(self):
        self.old = os.environ.pop("VOTEKIT_VERIF", None)

    def __exit__(self, *a):
        if self.old is not None:
            os.environ["VOTEKIT_VERIF"] = self.old

"""E3 -- reference models for the election side (exact, Fractions only, no votekit imports).

Inputs are harness-level profile cases: (candidates, ((ranking, weight), ...)) where a
ranking is a tuple of positions and a position a tuple of names.
"""

from __future__ import annotations

import itertools
import math
from fractions import Fraction

F = Fraction


# ------------------------------------------------------------------------------------
# positional scoring (C04)
# ------------------------------------------------------------------------------------
def exact(x):
    """Exact rational value of an int / Fraction / float."""
    return Fraction(x)


def ref_positional(case, vector):
    """Score of every declared candidate under `vector` (definition of C04)."""
    cs, ballots = case
    n = len(cs)
    vec = [exact(v) for v in vector][:n]
    vec = vec + [F(0)] * (n - len(vec))
    scores = {c: F(0) for c in cs}
    for ranking, w in ballots:
        w = F(w)
        listed = [c for p in ranking for c in p]
        positions = [tuple(p) for p in ranking]
        missing = tuple(c for c in cs if c not in listed)
        if missing:
            positions.append(missing)
        i = 0
        for p in positions:
            s = len(p)
            share = sum(vec[i : i + s], F(0)) / s
            for c in p:
                scores[c] += share * w
            i += s
    return scores


def ref_fpv(case):
    cs, _ = case
    return ref_positional(case, [1] + [0] * (len(cs) - 1)) if cs else {}


def ref_borda(case):
    cs, _ = case
    n = len(cs)
    return ref_positional(case, list(range(n, 0, -1)))


def ref_mentions(case):
    cs, ballots = case
    m = {c: F(0) for c in cs}
    for ranking, w in ballots:
        for p in ranking:
            for c in p:
                m[c] += F(w)
    return m


def groups_desc(scores, keys=None):
    """Candidates grouped by equal score, descending: tuple of frozensets."""
    if keys is None:
        keys = list(scores)
    vals = sorted({scores[c] for c in keys}, reverse=True)
    return tuple(frozenset(c for c in keys if scores[c] == v) for v in vals)


class TopM:
    """Which winner sets of size m are legal for `scores`."""

    def __init__(self, scores, m):
        order = sorted(scores.values(), reverse=True)
        self.m = m
        self.cut = order[m - 1]
        self.sure = frozenset(c for c, s in scores.items() if s > self.cut)
        self.tied = frozenset(c for c, s in scores.items() if s == self.cut)
        self.need = m - len(self.sure)
        self.straddles = len(self.tied) > self.need

    def legal(self, winners):
        winners = frozenset(winners)
        return (
            len(winners) == self.m
            and self.sure <= winners
            and winners <= (self.sure | self.tied)
        )


# ------------------------------------------------------------------------------------
# pairwise comparison / dominating tiers (C06)
# ------------------------------------------------------------------------------------
def ref_pairwise(case):
    """margin[(a,b)] = weight ranking a above b minus the reverse.

    A listed candidate beats an unlisted one; two unlisted candidates split evenly (margin
    contribution 0).  Untied ballots only.
    """
    cs, ballots = case
    marg = {}
    for a, b in itertools.permutations(cs, 2):
        marg[(a, b)] = F(0)
    for ranking, w in ballots:
        w = F(w)
        pos = {}
        for i, p in enumerate(ranking):
            for c in p:
                pos[c] = i
        for a, b in itertools.combinations(cs, 2):
            pa, pb = pos.get(a), pos.get(b)
            if pa is None and pb is None:
                continue
            if pb is None or (pa is not None and pa < pb):
                marg[(a, b)] += w
                marg[(b, a)] -= w
            elif pa is None or pb < pa:
                marg[(b, a)] += w
                marg[(a, b)] -= w
            # pa == pb (tied position): no contribution
    return marg


def check_tiers_definition(cs, marg, tiers):
    """Return None if `tiers` (list of sets) satisfies the definition, else a message."""
    flat = [c for t in tiers for c in t]
    if sorted(flat) != sorted(cs) or any(len(t) == 0 for t in tiers):
        return f"tiers {tiers} do not partition {cs}"
    for i, t in enumerate(tiers):
        for u in tiers[i + 1 :]:
            for a in t:
                for b in u:
                    if not marg[(a, b)] > 0:
                        return f"{a} (tier {i}) does not beat {b} in a lower tier"
    for t in tiers:
        t = sorted(t)
        k = len(t)
        for r in range(1, k):
            for top in itertools.combinations(t, r):
                bot = [c for c in t if c not in top]
                if all(marg[(a, b)] > 0 for a in top for b in bot):
                    return f"tier {t} splits into {top} over {bot}"
    return None


def ref_tiers(cs, marg):
    """Independent computation: SCCs of the 'not beaten by' relation, ordered."""
    cs = list(cs)
    # edge a->b iff a beats or ties b (a is not beaten by b)
    reach = {a: {a} for a in cs}
    changed = True
    adj = {a: [b for b in cs if b != a and marg[(a, b)] >= 0] for a in cs}
    while changed:
        changed = False
        for a in cs:
            new = set(reach[a])
            for b in list(reach[a]):
                new.update(adj[b])
            if new != reach[a]:
                reach[a] = new
                changed = True
    comps = []
    seen = set()
    for a in cs:
        if a in seen:
            continue
        comp = frozenset(b for b in cs if b in reach[a] and a in reach[b])
        seen |= comp
        comps.append(comp)
    comps.sort(key=lambda comp: -len(reach[next(iter(comp))]))
    return comps


# ------------------------------------------------------------------------------------
# STV family (C02, C03, C07, C13, C01)
# ------------------------------------------------------------------------------------
NEEDS_TB = "NEEDS_TIEBREAK"
OUT_OF_DOMAIN = "OUT_OF_DOMAIN"


def strip(B, removed):
    """Delete `removed` from linear rankings, drop empties / zero weights, merge."""
    out = {}
    for r, w in B.items():
        if w <= 0:
            continue
        r2 = tuple(c for c in r if c not in removed)
        if r2:
            out[r2] = out.get(r2, F(0)) + w
    return out


def tallies(B, rem):
    t = {c: F(0) for c in rem}
    for r, w in B.items():
        t[r[0]] += w
    return t


def linear(case):
    """Profile case of untied ballots -> dict linear ranking -> weight."""
    B = {}
    for ranking, w in case[1]:
        r = tuple(p[0] for p in ranking)
        B[r] = B.get(r, F(0)) + F(w)
    return B


def case_of(B, rem):
    return (tuple(sorted(rem)), tuple((tuple((c,) for c in r), w) for r, w in B.items()))


class STVConfig:
    def __init__(self, m, quota, simultaneous, tb, transfer, case):
        self.m = m
        self.quota = quota
        self.simultaneous = simultaneous
        self.tb = tb
        self.transfer = transfer  # 'fractional' | 'full' | 'random'
        N = sum((F(w) for _, w in case[1]), F(0))
        self.N = N
        if quota == "droop":
            self.thr = math.floor(N / (m + 1)) + 1
        elif quota == "hare":
            self.thr = math.floor(N / m)
        else:
            raise ValueError(quota)
        self.init_fpv = ref_fpv(case)


class Step:
    __slots__ = ("kind", "elected", "eliminated", "succs", "tie", "resolution_ok", "reason")

    def __init__(self, kind, elected=frozenset(), eliminated=None, succs=(), tie=None,
                 resolution_ok=None, reason=None):
        self.reason = reason
        self.kind = kind  # 'elect' | 'default' | 'elim' | NEEDS_TB | OUT_OF_DOMAIN
        self.elected = frozenset(elected)
        self.eliminated = eliminated
        self.succs = succs  # list of (B', rem', n_el')
        self.tie = tie  # frozenset of tied candidates, or None
        self.resolution_ok = resolution_ok  # callable(resolution tuple) -> bool


def _orders_by_score(T, score):
    """All strict orders of T consistent with descending `score` (random inside ties)."""
    grp = groups_desc(score, list(T))
    parts = [list(itertools.permutations(sorted(g))) for g in grp]
    for combo in itertools.product(*parts):
        yield tuple(c for part in combo for c in part)


def _transfer_options(B, c, t_c, thr, transfer):
    """Possible images of the c-led ballots (dict ranking-with-c-removed -> weight)."""
    led = {r: w for r, w in B.items() if r[0] == c}
    if transfer == "fractional":
        tv = (t_c - thr) / t_c
        return [{r: w * tv for r, w in led.items()}]
    if transfer == "full":
        return [dict(led)]
    if transfer == "random":
        # unit ballots; transferable = those with a further choice
        units = []
        for r, w in sorted(led.items()):
            if w.denominator != 1:
                return None
            if len(r) > 1:
                units.append((r, int(w)))
        surplus = int(t_c) - thr
        total = sum(k for _, k in units)
        s = min(surplus, total)
        out = []
        rs = [r for r, _ in units]
        ks = [k for _, k in units]

        def rec(i, left):
            if i == len(ks):
                if left == 0:
                    yield ()
                return
            for x in range(min(ks[i], left) + 1):
                for rest in rec(i + 1, left - x):
                    yield (x,) + rest

        for sel in rec(0, s):
            out.append({r: F(x) for r, x in zip(rs, sel) if x > 0})
        return out
    raise ValueError(transfer)


def legal_steps(state, cfg):
    """All legal next steps of the documented count from `state` = (B, rem, n_el)."""
    B, rem, n_el = state
    t = tallies(B, rem)
    thr = cfg.thr
    if thr <= 0:
        return [Step(OUT_OF_DOMAIN, reason="threshold_zero")]
    above = [c for c in rem if t[c] >= thr]
    seats_left = cfg.m - n_el
    steps = []
    if above:
        if cfg.simultaneous:
            if len(above) > seats_left:
                return [Step(OUT_OF_DOMAIN, reason="more_at_quota_than_seats")]
            winner_sets = [(frozenset(above), None, None)]
        else:
            top = max(t[c] for c in above)
            tops = frozenset(c for c in above if t[c] == top)
            if len(tops) > 1:
                if cfg.tb is None:
                    return [Step(NEEDS_TB, tie=tops)]
                cur = case_of(B, rem)
                if cfg.tb == "borda":
                    sc = ref_borda(cur)
                elif cfg.tb == "first_place":
                    sc = ref_fpv(cur)
                else:
                    sc = {c: 0 for c in tops}
                orders = list(_orders_by_score(tops, sc))
                winner_sets = []
                for w in sorted({o[0] for o in orders}):
                    okset = {o for o in orders if o[0] == w}
                    winner_sets.append((frozenset([w]), tops, okset))
            else:
                winner_sets = [(tops, None, None)]
        for W, tie, okset in winner_sets:
            rest = {r: w for r, w in B.items() if r[0] not in W}
            opts_per_w = []
            bad = False
            for c in sorted(W):
                o = _transfer_options(B, c, t[c], thr, cfg.transfer)
                if o is None:
                    bad = True
                    break
                opts_per_w.append(o)
            if bad:
                return [Step(OUT_OF_DOMAIN, reason="non_integer_weight_random_transfer")]
            succs = []
            for combo in itertools.product(*opts_per_w):
                Bn = dict(rest)
                for d in combo:
                    for r, w in d.items():
                        Bn[r] = Bn.get(r, F(0)) + w
                Bn = strip(Bn, W)
                succs.append((Bn, rem - W, n_el + len(W)))
            steps.append(
                Step("elect", W, None, succs, tie,
                     (lambda res, okset=okset: res in okset) if okset else None)
            )
        return steps
    if len(rem) == seats_left:
        return [Step("default", rem, None, [({}, frozenset(), n_el + len(rem))])]
    low = min(t[c] for c in rem)
    L = frozenset(c for c in rem if t[c] == low)
    if len(L) > 1:
        orders = list(_orders_by_score(L, cfg.init_fpv))
        for e in sorted({o[-1] for o in orders}):
            okset = {o for o in orders if o[-1] == e}
            steps.append(
                Step("elim", frozenset(), e, [(strip(B, {e}), rem - {e}, n_el)], L,
                     lambda res, okset=okset: res in okset)
            )
    else:
        (e,) = L
        steps.append(Step("elim", frozenset(), e, [(strip(B, {e}), rem - {e}, n_el)]))
    return steps


def state_key(state):
    B, rem, n_el = state
    return (frozenset(B.items()), frozenset(rem), n_el)


def ref_traces(case, cfg, limit=20000):
    """Set of complete observable traces of the reference count.

    A trace is a tuple of (kind, elected frozenset, eliminated, tallies-after as sorted
    tuple) and ends with a marker ('END',) / (NEEDS_TB,) / (OUT_OF_DOMAIN,).
    """
    out = set()
    init = (linear(case), frozenset(case[0]), 0)
    stack = [(init, ())]
    n = 0
    while stack:
        st, tr = stack.pop()
        n += 1
        if n > limit:
            raise OverflowError("reference trace set too large")
        if st[2] >= cfg.m:
            out.add(tr + (("END",),))
            continue
        for step in legal_steps(st, cfg):
            if step.kind in (NEEDS_TB, OUT_OF_DOMAIN):
                out.add(tr + ((step.kind,),))
                continue
            for succ in step.succs:
                tl = tuple(sorted(tallies(succ[0], succ[1]).items()))
                obs = (step.kind, step.elected, step.eliminated, tl)
                stack.append((succ, tr + (obs,)))
    return out


# ------------------------------------------------------------------------------------
# solid coalitions (C07)
# ------------------------------------------------------------------------------------
def solid_weight(case, S):
    S = frozenset(S)
    k = len(S)
    tot = F(0)
    for ranking, w in case[1]:
        flat = [c for p in ranking for c in p]
        if len(flat) >= k and frozenset(flat[:k]) == S:
            tot += F(w)
    return tot

"""E2 -- input families (pure Python, no votekit imports).

A *ranking* is a tuple of positions, each position a sorted tuple of candidate names.
A *profile case* is (candidates, ((ranking, weight), ...)) with weight an int or Fraction.
All families are enumerated in a canonical, simplest-first order and come with a
closed-form size that the checks compare with what they actually enumerated.
"""

from __future__ import annotations

import itertools
import math
from fractions import Fraction

# Candidate names of every family.  In ascending sort order (the families rely on that), and the first three are contained in
# one another on purpose: code that matches names as substrings, or compares them by prefix, is exposed by every election check.
NAMES = ("A", "AB", "ABC", "B", "C", "D", "E")


def cands(n, names=NAMES):
    return tuple(names[:n])


def rank_family(n, names=NAMES):
    """Rank(n): all non-empty partial linear rankings over n candidates."""
    cs = cands(n, names)
    out = []
    for k in range(1, n + 1):
        for perm in itertools.permutations(cs, k):
            out.append(tuple((c,) for c in perm))
    return out


def rank_size(n):
    return sum(math.perm(n, k) for k in range(1, n + 1))


def perm_family(n, names=NAMES):
    cs = cands(n, names)
    return [tuple((c,) for c in perm) for perm in itertools.permutations(cs)]


def bullet_family(n, names=NAMES):
    return [((c,),) for c in cands(n, names)]


def _ordered_partitions(items):
    """All ordered set partitions (weak orders) of the tuple `items`."""
    items = tuple(items)
    if not items:
        yield ()
        return
    n = len(items)
    # choose the first block (non-empty subset), recurse on the rest
    for r in range(1, n + 1):
        for first in itertools.combinations(items, r):
            rest = tuple(x for x in items if x not in first)
            for tail in _ordered_partitions(rest):
                yield (tuple(first),) + tail


def weak_family(n, names=NAMES):
    """Weak(n): all non-empty partial weak orders (tied positions allowed)."""
    cs = cands(n, names)
    out = []
    for k in range(1, n + 1):
        for sub in itertools.combinations(cs, k):
            out.extend(_ordered_partitions(sub))
    # simplest first: fewer candidates, then fewer ties
    out.sort(key=lambda r: (sum(len(p) for p in r), -len(r), r))
    return out


def fubini(k):
    # ordered Bell numbers
    a = [1]
    for m in range(1, k + 1):
        a.append(sum(math.comb(m, j) * a[m - j] for j in range(1, m + 1)))
    return a[k]


def weak_size(n):
    return sum(math.comb(n, k) * fubini(k) for k in range(1, n + 1))


def prof_size(T, K, W):
    return sum(math.comb(T, k) * (W**k) for k in range(1, K + 1))


def prof_family(types, K, weights, candidates):
    """Prof(T,K,W): all profiles of 1..K distinct types (canonical order) x weights."""
    types = list(types)
    weights = list(weights)
    for k in range(1, K + 1):
        for combo in itertools.combinations(range(len(types)), k):
            for ws in itertools.product(weights, repeat=k):
                yield (candidates, tuple((types[i], w) for i, w in zip(combo, ws)))


def prof_list(types, K, weights, candidates):
    out = list(prof_family(types, K, weights, candidates))
    exp = prof_size(len(list(types)), K, len(list(weights)))
    if len(out) != exp:
        raise AssertionError(f"family size mismatch {len(out)} != {exp}")
    return out


def ballot_lists(types, max_len, weights):
    """All ordered lists (repetitions allowed) of length 1..max_len of (type, weight)."""
    items = [(t, w) for t in types for w in weights]
    for L in range(1, max_len + 1):
        yield from itertools.product(items, repeat=L)


def ranking_to_json(r):
    return [list(p) for p in r]


def case_to_json(case):
    cs, bl = case
    return {
        "candidates": list(cs),
        "ballots": [
            {"ranking": ranking_to_json(r), "weight": str(w)} for r, w in bl
        ],
    }


def case_from_json(j):
    return (
        tuple(j["candidates"]),
        tuple(
            (tuple(tuple(p) for p in b["ranking"]), _num(b["weight"]))
            for b in j["ballots"]
        ),
    )


def _num(s):
    f = Fraction(s)
    return int(f) if f.denominator == 1 else f


def first_cands(r):
    return r[0] if r else ()


def rename_ranking(r, mp):
    return tuple(tuple(sorted(mp[c] for c in p)) for p in r)

"""E5 -- runner: sharding, known findings, replay files, evidence.

usage (through the ./vk launcher, which sets PYTHONPATH / PYTHONHASHSEED / the hook guard):
    vk check C02 [--tier quick|thorough] [--jobs N] [--limit N]
    vk replay /verif/replays/C02/<sha>.json
    vk selftest
"""

from __future__ import annotations

import argparse
import collections
import hashlib
import importlib
import json
import multiprocessing as mp
import os
import signal
import subprocess
import sys
import time
import traceback

VERIF = os.path.dirname(os.path.dirname(os.path.abspath(__file__)))
EVIDENCE_DIR = os.environ.get("VK_EVIDENCE_DIR") or os.path.join(VERIF, "evidence")
REPLAY_DIR = os.environ.get("VK_REPLAY_DIR") or os.path.join(VERIF, "replays")
FINDINGS = os.path.join(VERIF, "known_findings.json")
SCHEMA = "/root/.vp/EVIDENCE.schema.json"


class HarnessError(Exception):
    pass


class CaseTimeout(BaseException):  # not an Exception: must not be swallowed by the code under test or by a check
    pass


def _alarm(signum, frame):
    raise CaseTimeout("case exceeded the wall-clock fall-back limit")


# globals shared with forked workers
_MOD = None
_CASES = None
_TIER = None
CASE_TIME_LIMIT = float(os.environ.get("VK_CASE_LIMIT", "300"))  # in the pool; a case that exceeds it is re-run alone (RERUN_TIME_LIMIT) before anything is reported
RERUN_TIME_LIMIT = float(os.environ.get("VK_RERUN_LIMIT", "600"))


def _run_range(rng):
    lo, hi = rng[0], rng[1]
    limit = RERUN_TIME_LIMIT if rng[2:] == ("rerun",) else CASE_TIME_LIMIT
    from . import chooser

    agg = new_agg()
    signal.signal(signal.SIGALRM, _alarm)
    for i in range(lo, hi):
        case = _CASES[i]
        signal.setitimer(signal.ITIMER_REAL, limit)
        try:
            out = _MOD.run_case(case, _TIER)
        except chooser.HARNESS_ERRORS as e:
            signal.setitimer(signal.ITIMER_REAL, 0)
            agg["harness_errors"].append(
                f"case {i}: {type(e).__name__}: {e}\n{traceback.format_exc()[-1500:]}"
            )
            continue
        except CaseTimeout as e:
            chooser.CH.active = False
            if rng[2:] == ("rerun",):
                out = {
                    "viols": [
                        {
                            "sig": {"kind": "timeout"},
                            "msg": f"case did not finish within {RERUN_TIME_LIMIT}s when run alone: {e}",
                            "case": _MOD.case_json(case) if hasattr(_MOD, "case_json") else repr(case),
                        }
                    ]
                }
            else:
                agg["timeouts"].append(i)
                continue
        except Exception as e:  # a bug in the harness itself
            signal.setitimer(signal.ITIMER_REAL, 0)
            chooser.CH.active = False
            agg["harness_errors"].append(
                f"case {i}: {type(e).__name__}: {e}\n{traceback.format_exc()[-2500:]}"
            )
            continue
        finally:
            signal.setitimer(signal.ITIMER_REAL, 0)
        merge_out(agg, out, i)
    return agg


def new_agg():
    return {
        "counters": collections.Counter(),
        "viols": [],
        "samples": [],
        "harness_errors": [],
        "sets": collections.defaultdict(set),
        "sigcount": collections.Counter(),
        "timeouts": [],
        "cases": 0,
    }


MAX_PER_SIG = 3


def _sigkey(v):
    return json.dumps(v.get("sig", {}), sort_keys=True, default=str)


def _keep(agg, v):
    """Keep at most MAX_PER_SIG examples per signature (all signatures are kept)."""
    k = _sigkey(v)
    agg["sigcount"][k] += v.get("_count", 1)
    have = sum(1 for w in agg["viols"] if _sigkey(w) == k) if agg["sigcount"][k] <= 50 else MAX_PER_SIG
    if have < MAX_PER_SIG:
        agg["viols"].append(v)


def merge_out(agg, out, idx=None):
    agg["cases"] += 1
    for k, v in out.get("counters", {}).items():
        agg["counters"][k] += v
    for v in out.get("viols", []):
        _keep(agg, v)
        agg["counters"]["violations_total"] += 1
    s = out.get("sample")
    if s is not None and len(agg["samples"]) < 3:
        agg["samples"].append(s)
    for k, v in out.get("sets", {}).items():
        agg["sets"][k] |= set(v)


def merge_agg(a, b):
    a["cases"] += b["cases"]
    a["counters"].update(b["counters"])
    kept = collections.Counter(_sigkey(w) for w in a["viols"])
    for v in b["viols"]:
        k = _sigkey(v)
        if kept[k] < MAX_PER_SIG:
            a["viols"].append(v)
            kept[k] += 1
    a["sigcount"].update(b["sigcount"])
    for s in b["samples"]:
        if len(a["samples"]) < 6:
            a["samples"].append(s)
    a["harness_errors"].extend(b["harness_errors"])
    a["timeouts"].extend(b.get("timeouts", []))
    for k, v in b["sets"].items():
        a["sets"][k] |= v


# ------------------------------------------------------------------------------------
def load_findings(prop):
    if not os.path.exists(FINDINGS):
        return []
    with open(FINDINGS) as f:
        data = json.load(f)
    return [e for e in data.get("findings", []) if e.get("property") == prop]


def sig_matches(entry, sig):
    m = entry.get("match", {})
    for k, v in m.items():
        sv = sig.get(k)
        if isinstance(v, list):
            if sv not in v:
                return False
        elif sv != v:
            return False
    return True


def repo_fingerprint():
    repo = os.environ.get("VK_REPO", "/repo")
    try:
        head = subprocess.run(
            ["git", "-C", repo, "rev-parse", "HEAD"], capture_output=True, text=True
        ).stdout.strip()
        diff = subprocess.run(
            ["git", "-C", repo, "diff", "HEAD", "--", "src"], capture_output=True
        ).stdout
        return {"repo": repo, "head": head, "diff_sha1": hashlib.sha1(diff).hexdigest()[:12],
                "dirty": bool(diff.strip())}
    except Exception as e:  # pragma: no cover
        return {"repo": repo, "error": str(e)}


def write_replay(prop, viol):
    d = os.path.join(REPLAY_DIR, prop)
    os.makedirs(d, exist_ok=True)
    body = json.dumps({"property": prop, **viol}, indent=1, sort_keys=True, default=str)
    sha = hashlib.sha1(body.encode()).hexdigest()[:16]
    path = os.path.join(d, sha + ".json")
    with open(path, "w") as f:
        f.write(body)
    return path


def validate_evidence(path):
    code = (
        "import json,sys,jsonschema;"
        "s=json.load(open(sys.argv[1]));e=json.load(open(sys.argv[2]));"
        "jsonschema.Draft202012Validator(s).validate(e)"
    )
    for py in ("python3-vt", "/opt/veriftools/pyvenv/bin/python"):
        try:
            r = subprocess.run([py, "-c", code, SCHEMA, path], capture_output=True, text=True)
        except FileNotFoundError:
            continue
        if r.returncode != 0:
            raise HarnessError("evidence does not validate: " + r.stderr[-800:])
        return True
    # no validator available: structural minimum
    e = json.load(open(path))
    for k in ("property_id", "tier", "seed", "level", "coverage", "wall_s"):
        if k not in e:
            raise HarnessError(f"evidence lacks {k}")
    return False


def run_check(prop, tier, jobs, limit=None, only_case=None):
    global _MOD, _CASES, _TIER
    t0 = time.time()
    seed = int(os.environ.get("VERIF_SEED", "0") or 0)
    from . import vkit  # noqa: F401  (installs the chooser, asserts the import path)

    mod = importlib.import_module("checks." + prop.lower())
    _MOD = mod
    _TIER = tier
    cases, meta = mod.build_cases(tier, seed)
    if limit:
        cases = cases[:limit]
    _CASES = cases
    ncases = len(cases)
    findings = load_findings(prop)
    agg = new_agg()

    # witnesses of all known findings (open and fixed) are replayed first
    witness_cases = []
    if hasattr(mod, "witness_case"):
        for e in findings:
            if e.get("witness") is not None:
                try:
                    witness_cases.append((e, mod.witness_case(e["witness"])))
                except Exception as ex:
                    agg["harness_errors"].append(f"witness of {e.get('id')}: {ex}")
    for e, wc in witness_cases:
        try:
            out = mod.run_case(wc, tier)
        except Exception as ex:
            agg["harness_errors"].append(
                f"witness of {e.get('id')}: {type(ex).__name__}: {ex}\n{traceback.format_exc()[-1500:]}")
            continue
        for v in out.get("viols", []):
            v["from_witness"] = e.get("id")
        merge_out(agg, out)
        agg["counters"]["witness_cases"] += 1
    agg["cases"] = 0

    chunk = getattr(mod, "CHUNK", None) or max(1, min(200, ncases // (jobs * 8) or 1))
    ranges = [(i, min(ncases, i + chunk)) for i in range(0, ncases, chunk)]
    # VERIF_SEED only changes dispatch order, never the set of cases
    if seed:
        import random as _r

        _r.Random(seed).shuffle(ranges)
    if jobs <= 1 or ncases <= 1:
        for r in ranges:
            merge_agg(agg, _run_range(r))
    else:
        ctx = mp.get_context("fork")
        with ctx.Pool(jobs) as pool:
            for part in pool.imap_unordered(_run_range, ranges):
                merge_agg(agg, part)
    # cases that hit the in-pool time limit are re-run alone, without contention, before anything is reported
    for i in sorted(set(agg["timeouts"])):
        agg["counters"]["cases_rerun_after_timeout"] += 1
        merge_agg(agg, _run_range((i, i + 1, "rerun")))
    if agg["cases"] != ncases:
        agg["harness_errors"].append(f"ran {agg['cases']} cases, family has {ncases}")

    post = {}
    if hasattr(mod, "finalize"):
        post = mod.finalize(agg, tier) or {}
        for v in post.pop("viols", []):
            agg["viols"].append(v)
            agg["sigcount"][_sigkey(v)] += 1
            agg["counters"]["violations_total"] += 1

    # --- triage against known findings -------------------------------------------------
    matched = collections.Counter()
    hit_sigs = {}
    fresh = []
    for v in agg["viols"]:
        sig = v.get("sig", {})
        hit = None
        for e in findings:
            if e.get("status") == "open" and sig_matches(e, sig):
                hit = e
                break
        if hit is not None:
            matched[hit["id"]] += 0
            hit_sigs.setdefault(hit["id"], set()).add(_sigkey(v))
        else:
            # a fixed finding that returns is reported with its history
            for e in findings:
                if e.get("status") == "fixed" and sig_matches(e, sig):
                    v["msg"] = (v.get("msg", "") + f"  [regression of fixed finding {e['id']}: "
                                f"{e.get('what')} (fixed in {e.get('commit')})]")
            fresh.append(v)

    for fid, ks in hit_sigs.items():
        matched[fid] = sum(agg["sigcount"][k] for k in ks)
    exit_code = 0
    printed = set()
    nprinted = 0
    for v in fresh:
        key = json.dumps(v.get("sig", {}), sort_keys=True, default=str)
        path = write_replay(prop, v) if (key not in printed or nprinted < 5) else None
        if key in printed:
            continue
        printed.add(key)
        nprinted += 1
        if nprinted <= 40:
            print(f"VIOLATION property={prop} replay={path}")
            print(f"    [{agg['sigcount'][key]} executions] sig={key}")
            print("   ", (v.get("msg") or "")[:600].replace("\n", " | "))
        exit_code = 1
    nfresh_exec = sum(agg["sigcount"][k] for k in printed)
    if fresh:
        print(f"    ... {nfresh_exec} violating executions in {nprinted} distinct signatures")
    for e in findings:
        if e.get("status") == "open":
            print(f"KNOWN-FINDING: property={prop} {e.get('what')} "
                  f"[{e['id']}; matched {matched.get(e['id'], 0)} executions in this run]")
    if agg["harness_errors"]:
        sys.stderr.write("HARNESS ERROR(S):\n" + "\n".join(agg["harness_errors"][:5]) + "\n")
        exit_code = 2

    # --- evidence --------------------------------------------------------------------
    wall = time.time() - t0
    cnt = agg["counters"]
    coverage = dict(meta.get("coverage", {}))
    coverage.update(post.get("coverage", {}))
    coverage.setdefault("family", meta.get("family"))
    coverage["family_size"] = ncases
    coverage["cases_run"] = agg["cases"]
    coverage["samples"] = (agg["samples"] or meta.get("samples") or [])[:4]
    for k, v in agg["sets"].items():
        coverage[k] = len(v)
    for k, v in sorted(cnt.items()):
        coverage.setdefault(k, v)
    coverage["known_findings_matched"] = dict(matched)
    coverage["repo"] = repo_fingerprint()
    coverage["votekit_file"] = sys.modules["votekit"].__file__
    level = mod.LEVEL
    # the keys every level needs
    coverage.setdefault("evaluations", int(cnt.get("executions", agg["cases"])))
    coverage.setdefault("distinct_nontrivial", int(cnt.get("nontrivial", 0)))
    if level == "model_checking":
        coverage.setdefault("states", int(cnt.get("states", 0)))
        coverage.setdefault("transitions", int(cnt.get("transitions", 0)))
        coverage.setdefault("traces_validated_against_impl", int(cnt.get("traces", 0)))
    ev = {
        "property_id": prop,
        "tier": tier,
        "seed": seed,
        "level": level,
        "coverage": coverage,
        "assumptions": meta.get("assumptions", []),
        "wall_s": round(wall, 2),
        "violations": nfresh_exec,
    }
    if os.environ.get("VK_C08_WORKER"):
        return exit_code  # a hash-seed worker of C08: its parent writes the evidence
    os.makedirs(EVIDENCE_DIR, exist_ok=True)
    path = os.path.join(EVIDENCE_DIR, prop + ".json")
    with open(path, "w") as f:
        json.dump(ev, f, indent=1, sort_keys=True, default=str)
    try:
        validate_evidence(path)
    except HarnessError as e:
        sys.stderr.write(f"HARNESS ERROR: {e}\n")
        exit_code = exit_code or 2
    print(
        f"[{prop} {tier}] cases={ncases} executions={coverage['evaluations']} "
        f"nontrivial={coverage['distinct_nontrivial']} violations={nfresh_exec} "
        f"known={sum(matched.values())} wall={wall:.1f}s exit={exit_code}"
    )
    return exit_code


def run_replay(path):
    with open(path) as f:
        v = json.load(f)
    prop = v["property"]
    from . import vkit  # noqa: F401

    mod = importlib.import_module("checks." + prop.lower())
    case = mod.case_from_json(v["case"])
    out = mod.run_case(case, "quick")
    print(json.dumps(v.get("sig"), sort_keys=True))
    print(v.get("msg"))
    if out.get("viols"):
        for w in out["viols"][:5]:
            print("REPRODUCED:", json.dumps(w.get("sig"), sort_keys=True, default=str))
            print("   ", (w.get("msg") or "")[:800])
        return 1
    print("not reproduced on the current tree")
    return 0


def main(argv=None):
    ap = argparse.ArgumentParser(prog="vk")
    sub = ap.add_subparsers(dest="cmd", required=True)
    c = sub.add_parser("check")
    c.add_argument("prop")
    c.add_argument("--tier", default=os.environ.get("VERIF_TIER") or "quick",
                   choices=["quick", "thorough"])
    c.add_argument("--jobs", type=int, default=int(os.environ.get("VK_JOBS", "16")))
    c.add_argument("--limit", type=int, default=None)
    r = sub.add_parser("replay")
    r.add_argument("path")
    sub.add_parser("selftest")
    k = sub.add_parser("case")
    k.add_argument("prop")
    k.add_argument("index", type=int, nargs="+")
    k.add_argument("--tier", default="quick")
    a = ap.parse_args(argv)
    if a.cmd == "case":
        from . import vkit  # noqa: F401

        mod = importlib.import_module("checks." + a.prop.lower())
        cases, meta = mod.build_cases(a.tier, 0)
        for ix in a.index:
            t0 = time.time()
            out = mod.run_case(cases[ix], a.tier)
            print(ix, mod.case_json(cases[ix]) if hasattr(mod, "case_json") else "", f"{time.time() - t0:.2f}s")
            print("  counters:", dict(out.get("counters", {})))
            for v in out.get("viols", [])[:5]:
                print("  VIOL", json.dumps(v.get("sig"), default=str), (v.get("msg") or "")[-700:])
        return 0
    if a.cmd == "check":
        return run_check(a.prop.upper(), a.tier, a.jobs, a.limit)
    if a.cmd == "replay":
        return run_replay(a.path)
    if a.cmd == "selftest":
        from . import selftest

        return selftest.main()


if __name__ == "__main__":
    sys.exit(main())

"""C04 -- positional scores follow the definition exactly; Plurality/SNTV/Borda elect the top m.

X4: bounded-exhaustive profiles (tied positions, partial ballots, zero-vote candidates,
rational weights) x all score vectors over small alphabets; X1 for the tiebreak paths.
"""

from __future__ import annotations

import collections
import itertools
from fractions import Fraction

from engine import chooser, families as fam, refs, vkit
from . import common

ID = "C04"
LEVEL = "exploration"
CHUNK = 8
F = Fraction
_CASES = None
_VECS = None


def vectors(n, alphabet):
    out = []
    for L in range(1, n + 2):
        for v in itertools.combinations_with_replacement(sorted(alphabet, reverse=True), L):
            out.append(list(v))
    return out


def build_cases(tier, seed):
    global _CASES, _VECS
    c3 = fam.cands(3)
    W3 = fam.weak_family(3)
    cs = []
    if tier == "quick":
        cs += [c for c in fam.prof_list(W3, 2, (1, F(3, 2)), c3)]
        cs += [c for c in fam.prof_list(W3, 1, (2, F(1, 3)), c3)]
        famtxt = "Prof(Weak(3),2,{1,3/2}) + Prof(Weak(3),1,{2,1/3})"
    else:
        cs += [c for c in fam.prof_list(W3, 2, (1, 2, F(1, 3), F(3, 2)), c3)]
        cs += [c for c in fam.prof_list(W3, 3, (1,), c3)]
        cs += [c for c in fam.prof_list(fam.weak_family(4), 2, (1, 2), fam.cands(4))][::3]
        cs += [c for c in fam.prof_list(fam.weak_family(4), 1, (1, F(1, 3)), fam.cands(4))]
        famtxt = "Prof(Weak(3),2,{1,2,1/3,3/2}) + Prof(Weak(3),3,{1}) + every 3rd of Prof(Weak(4),2,{1,2}) + Prof(Weak(4),1,{1,1/3})"
    # the same ranking on two ballots whose weights add up to a denominator above 10**6 (exact sums when ballots are merged)
    tiny = (F(1, 999983), F(1, 999979))
    for r in W3[::3]:
        for r2 in (W3[1], W3[7]):
            cs.append((c3, ((r, tiny[0]), (r2, F(1, 10**6)), (r, tiny[1]))))
    _VECS = {}
    for n in (3, 4):
        _VECS[n] = (vectors(n, (0, 1, 2, 3)) + vectors(n, (F(0), F(1, 2), F(1, 3), F(1)))
                    + vectors(n, (0.0, 0.25, 0.5, 1.5))
                    + [[1, 1e-4, 1e-8], [F(2), F(1, 10**6 + 3), F(1, 10**7)], [0.3, 0.2, 0.1], [0.7, 0.1]])
    _CASES = cs
    meta = {
        "family": famtxt + " x all non-increasing score vectors of length 1..n+1 over {0,1,2,3}, {0,1/2,1/3,1} (Fractions) and the dyadic "
                  "floats {0,0.25,0.5,1.5} plus the vectors (1,1e-4,1e-8), (2,1/(10^6+3),1/10^7), (.3,.2,.1), (.7,.1); first_place_votes / mentions / borda_scores; Plurality, SNTV, Borda x m x tiebreak (all RNG paths)",
        "assumptions": ["float vector entries are read as their exact binary value",
                        "small scope: n<=3 (quick) / n<=4 (thorough) candidates, K<=2..3 ballot types"],
    }
    return list(range(len(cs))), meta


def _get(i):
    return _CASES[i] if isinstance(i, int) else i


def case_json(i):
    return fam.case_to_json(_get(i))


def case_from_json(j):
    return fam.case_from_json(j)


witness_case = case_from_json


def _viol(kind, what, i, msg, cfg=None):
    return {"sig": {"kind": kind, "rule": what}, "msg": f"{what} {cfg or ''} on {case_json(i)}: {msg}",
            "case": case_json(i), "config": vkit.jsonable(cfg)}


def run_case(i, tier):
    from votekit import utils as U

    case = _get(i)
    cs, bl = case
    n = len(cs)
    cnt = collections.Counter()
    out = {"counters": cnt, "viols": []}
    prof = vkit.mk_profile(case)
    has_tie_or_missing = any(len(p) > 1 for r, _ in bl for p in r) or any(
        sum(len(p) for p in r) < n for r, _ in bl)
    if has_tie_or_missing:
        cnt["nontrivial"] += 1
    totw = sum((F(w) for _, w in bl), F(0))
    seen_kinds = set()
    for vec in _VECS[n]:
        cnt["executions"] += 1
        try:
            got = U.score_profile_from_rankings(prof, vec)
        except Exception as e:
            if ("exception", type(e).__name__) not in seen_kinds:
                seen_kinds.add(("exception", type(e).__name__))
                out["viols"].append(_viol("exception", "score_profile_from_rankings", i, f"{type(e).__name__}: {e}", {"vector": vec}))
            continue
        exp = refs.ref_positional(case, vec)
        if dict(got) != exp or any(not isinstance(v, Fraction) for v in got.values()):
            if "scores" not in seen_kinds:
                seen_kinds.add("scores")
                out["viols"].append(_viol("scores", "score_profile_from_rankings", i,
                                          f"scores {vkit.jsonable(dict(got))} differ from the definition {vkit.jsonable(exp)}", {"vector": vec}))
            continue
        padded = ([F(v) for v in vec] + [F(0)] * n)[:n]
        if sum(got.values(), F(0)) != totw * sum(padded, F(0)):
            if "sum" not in seen_kinds:
                seen_kinds.add("sum")
                out["viols"].append(_viol("conservation", "score_profile_from_rankings", i,
                                          f"points handed out {sum(got.values())} != total weight {totw} x vector total {sum(padded)}", {"vector": vec}))
        if cnt["executions"] % 23 == 0:
            gf = U.score_profile_from_rankings(prof, vec, to_float=True)
            if any(gf[c] != float(exp[c]) for c in cs):
                out["viols"].append(_viol("to_float", "score_profile_from_rankings", i,
                                          f"to_float result {gf} != float of the exact scores", {"vector": vec}))
    # special cases
    for name, fn, exp in (("first_place_votes", U.first_place_votes, refs.ref_fpv(case)),
                          ("borda_scores", U.borda_scores, refs.ref_borda(case)),
                          ("mentions", U.mentions, refs.ref_mentions(case))):
        cnt["executions"] += 1
        try:
            got = fn(prof)
        except Exception as e:
            out["viols"].append(_viol("exception", name, i, f"{type(e).__name__}: {e}"))
            continue
        if dict(got) != exp:
            out["viols"].append(_viol("scores", name, i, f"{vkit.jsonable(dict(got))} differs from the definition {vkit.jsonable(exp)}"))
        gf = fn(prof, to_float=True)
        if any(gf[c] != float(exp[c]) for c in cs):
            out["viols"].append(_viol("to_float", name, i, f"{gf} != float of exact"))
    # elections
    alt_vecs = [[3, 1, 1], [2, 2, 0], [F(1), F(1, 2), F(1, 3)], [1.5, 0.5, 0.25], [3, 2, 1, 1],
                [1, 1e-4, 1e-8], [F(2), F(1, 10**6 + 3), F(1, 10**7)], [0.3, 0.2, 0.1]]
    for rule, vec in [("Plurality", None), ("SNTV", None), ("Borda", None)] + [("Borda", v) for v in alt_vecs]:
        if vec is None:
            sc = refs.ref_fpv(case) if rule != "Borda" else refs.ref_borda(case)
        else:
            sc = refs.ref_positional(case, vec)
        for m in range(1, n + 1):
            t = refs.TopM(sc, m)
            for tb in common.TBS:
                kw = dict(m=m, tiebreak=tb)
                if vec is not None:
                    kw["score_vector"] = vec
                fn = vkit.election_fn(rule, case, kw)
                for p in chooser.explore(fn):
                    cnt["executions"] += 1
                    if p.exc is not None:
                        if not (isinstance(p.exc, ValueError) and tb is None and t.straddles):
                            out["viols"].append(_viol("exception", rule, i, f"{type(p.exc).__name__}: {p.exc}", kw))
                        continue
                    e = p.result
                    if tb is None and t.straddles:
                        out["viols"].append(_viol("tie_not_refused", rule, i, "boundary tie with tiebreak None returned a result", kw))
                        continue
                    if dict(e.election_states[0].scores) != sc:
                        out["viols"].append(_viol("round0_scores", rule, i,
                                                  f"round-0 scores {vkit.jsonable(dict(e.election_states[0].scores))} != definition {vkit.jsonable(sc)}", kw))
                        continue
                    groups = e.get_elected()
                    el = vkit.flat(groups)
                    if not t.legal(el):
                        out["viols"].append(_viol("winners", rule, i,
                                                  f"elected {el} with scores {vkit.jsonable(sc)}: a winner scores lower than a loser or count != m", kw))
                        continue
                    # descending order, equal scores grouped unless separated by a recorded tiebreak
                    tbs = e.election_states[1].tiebreaks
                    broken = set()
                    for T in tbs:
                        broken |= set(T)
                    seq = [sc[c] for c in el]
                    msg = None
                    if any(seq[k] < seq[k + 1] for k in range(len(seq) - 1)):
                        msg = f"elected order {el} is not descending in score {vkit.jsonable(sc)}"
                    for g in groups:
                        if len({sc[c] for c in g}) > 1:
                            msg = f"group {sorted(g)} reported as tied but scores differ"
                    for a, b in itertools.combinations(el, 2):
                        if sc[a] == sc[b] and not (a in broken and b in broken):
                            if not any(a in g and b in g for g in groups):
                                msg = f"{a} and {b} have equal score but are not reported as tied (no tiebreak recorded)"
                    if msg:
                        out["viols"].append(_viol("order", rule, i, msg, kw))
    cnt["states"] += 1
    if isinstance(i, int) and i % 311 == 0:
        out["sample"] = {"profile": case_json(i), "vectors_scored": len(_VECS[n])}
    # keep one violation per kind per case
    return out


def finalize(agg, tier):
    return {"coverage": {
        "exhaustive": True,
        "rule": "one case = one profile, scored under every vector of the alphabets and run through Plurality/SNTV/Borda for every "
                "m and tiebreak; nontrivial = distinct profiles containing a tied position or an unlisted candidate",
    }}

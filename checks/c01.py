"""C01 -- every election terminates with exactly m winners and a consistent outcome.

X4 families x all configurations x X1 all paths; invariants on every round of every path
and exception discipline judged by reference tie oracles (refs.TopM, lock-step STV model).
"""

from __future__ import annotations

import collections
from fractions import Fraction

import itertools

from engine import chooser, families as fam, lockstep, refs, vkit
from engine.refs import NEEDS_TB
from . import common

ID = "C01"
LEVEL = "model_checking"
CHUNK = 2

_CASES = None


def build_cases(tier, seed):
    global _CASES
    cs = []
    for tag, c in common.rank_profiles(tier):
        cs.append(("rank", tag, c))
    for c in common.weak_profiles(tier):
        cs.append(("weak", "int", c))
    for c in common.score_profiles(tier):
        cs.append(("score", "x", c))
    for c in common.zero_ballot_cases():
        cs.append(("zero", "int", c))
    # decimal weights whose float sums are inexact (1/10 + 1/5 vs 3/10): exact ties that float tallies would miss;
    # single-round rules and TopTwo only (see rule_menu)
    nine = fam.bullet_family(3) + fam.perm_family(3)
    tenth = (Fraction(1, 10), Fraction(1, 5), Fraction(3, 10))
    for combo in itertools.combinations(range(len(nine)), 3):
        for ws in (tenth, (tenth[2], tenth[0], tenth[1])):
            cs.append(("dec", "rat", (fam.cands(3), tuple((nine[k], w) for k, w in zip(combo, ws)))))
    _CASES = cs
    meta = {
        "family": "ranked: " + common.family_text(tier) + "; tied ballots: Prof(Weak(3),2,{1,2}) for the tie-tolerant rules;"
        " score profiles over {0,1,2}/{0,1/2,1}; zero-ballot profiles with 1..3 declared candidates; three-ballot profiles over Bullet(3)+Perm(3) with weights "
        "(1/10,1/5,3/10) for the single-round rules;"
        " x every rule class x m x quota x simultaneous x transfer x tiebreak x all RNG paths",
        "assumptions": [
            "small scope: n<=3 candidates (n<=4 thorough), K<=2..3 distinct ballot types, weights from a handful of values",
            "PluralityVeto only with total weight <= 4 (quick) so that all voter orders are enumerated",
            "the STV family only on untied ballots",
            "score-rule profiles that the rule rejects with TypeError are not 'accepted profiles' (judged by C05)",
        ],
    }
    return list(range(len(cs))), meta


def _get(i):
    return _CASES[i] if isinstance(i, int) else i


def case_json(i):
    kind, tag, case = _get(i)
    if kind == "score":
        return {"kind": kind, "candidates": list(case[0]),
                "ballots": [{"scores": {c: str(v) for c, v in sc}, "weight": str(w)} for sc, w in case[1]]}
    d = fam.case_to_json(case)
    d["kind"] = kind
    return d


def case_from_json(j):
    kind = j.get("kind", "rank")
    if kind == "score":
        case = (tuple(j["candidates"]),
                tuple((tuple((c, fam._num(v)) for c, v in b["scores"].items()), fam._num(b["weight"]))
                      for b in j["ballots"]))
        return (kind, "x", case)
    case = fam.case_from_json(j)
    tag = "int" if all(Fraction(w).denominator == 1 for _, w in case[1]) else "rat"
    return (kind, tag, case)


witness_case = case_from_json


# ------------------------------------------------------------------------------------
def rule_menu(kind, tag, case, tier):
    """Yield (label, votekit rule, kwargs, expected number of winners, oracle spec)."""
    cs = case[0]
    n = len(cs)
    total = sum((Fraction(w) for _, w in case[1]), Fraction(0))
    untied = all(len(p) == 1 for r, _ in case[1] for p in r) if kind != "score" else False
    if kind == "score":
        for rule, kw in common.score_rule_configs(n):
            yield rule, rule, kw, kw["m"], ("score", kw["m"])
        return
    ms = range(1, n + 1)
    if kind == "dec":
        for m in ms:
            for tb in (None, "random"):
                yield "Plurality", "Plurality", dict(m=m, tiebreak=tb), m, ("fpv", m, tb)
                yield "Borda", "Borda", dict(m=m, tiebreak=tb), m, ("borda", m, tb)
        for tb in (None, "random"):
            yield "TopTwo", "TopTwo", dict(tiebreak=tb), 1, ("toptwo", tb)
        yield "STV", "STV", dict(m=1, quota="droop", simultaneous=True, tiebreak=None, transfer="fractional"), 1, ("stv", 1, "droop", True, None, "fractional")
        return
    if kind in ("rank", "zero"):
        for (rule, m, q, sim, tb) in common.stv_configs(n, tag):
            vrule, kw, tr = common.stv_ctor(rule, m, q, sim, tb)
            yield rule, vrule, kw, m, ("stv", m, q, sim, tb, tr)
        yield "DominatingSets", "DominatingSets", {}, None, ("dom",)
        for m in ms:
            yield "CondoBorda", "CondoBorda", dict(m=m), m, ("none",)
        pairs = [(a, b) for a in ms for b in range(1, a + 1)]
        for (m1, m2) in pairs:
            for q in ("droop", "hare"):
                for sim in (True, False):
                    for tb in (None, "random"):
                        for tr in ("fractional", "random") if tag == "int" else ("fractional",):
                            yield ("Alaska", "Alaska",
                                   dict(m_1=m1, m_2=m2, quota=q, simultaneous=sim, tiebreak=tb, transfer=tr),
                                   m2, ("alaska", m1, m2, q, sim, tb, tr))
    if kind == "weak":
        # the pairwise rules accept tied positions (a tied pair counts for neither candidate)
        yield "DominatingSets", "DominatingSets", {}, None, ("dom",)
        for m in ms:
            yield "CondoBorda", "CondoBorda", dict(m=m), m, ("none",)
    for m in ms:
        for tb in common.TBS:
            yield "Plurality", "Plurality", dict(m=m, tiebreak=tb), m, ("fpv", m, tb)
            yield "SNTV", "SNTV", dict(m=m, tiebreak=tb), m, ("fpv", m, tb)
            yield "Borda", "Borda", dict(m=m, tiebreak=tb), m, ("borda", m, tb)
        yield "RandomDictator", "RandomDictator", dict(m=m), m, ("none",)
        yield "BoostedRandomDictator", "BoostedRandomDictator", dict(m=m), m, ("none",)
    if n >= 2:
        for tb in common.TBS:
            yield "TopTwo", "TopTwo", dict(tiebreak=tb), 1, ("toptwo", tb)
    if tag == "int" and total <= (4 if tier == "quick" else 5):
        if untied:
            for m in ms:
                yield "PluralityVeto", "PluralityVeto", dict(m=m, tiebreak=None), m, ("none",)
        elif total <= 3:
            for m in ms:
                yield "PluralityVeto", "PluralityVeto", dict(m=m, tiebreak="random"), m, ("none",)


def _remove(case, removed):
    """Harness-level remove_cand (candidates deleted from every ballot, empties dropped)."""
    cs, bl = case
    out = []
    for r, w in bl:
        r2 = tuple(tuple(c for c in p if c not in removed) for p in r)
        r2 = tuple(p for p in r2 if p)
        if r2:
            out.append((r2, w))
    return (tuple(c for c in cs if c not in removed), tuple(out))


def expected_raise(spec, kind, case, path, exc_states_all):
    """Return (must_raise, may_raise, pred) for ValueError under this spec on this path.

    must_raise: the property demands ValueError (a straddling tie with tiebreak None);
    may_raise: ValueError is acceptable.
    """
    what = spec[0]
    if what == "none" or what == "dom":
        return False, False, None
    if what in ("fpv", "borda"):
        m, tb = spec[1], spec[2]
        sc = refs.ref_fpv(case) if what == "fpv" else refs.ref_borda(case)
        st = refs.TopM(sc, m).straddles
        return (st and tb is None), (st and tb is None), None
    if what == "score":
        m = spec[1]
        return None, None, None  # handled by caller (needs kwargs)
    if what == "toptwo":
        tb = spec[1]
        if tb is not None:
            return False, False, None
        sc = refs.ref_fpv(case)
        t = refs.TopM(sc, 2)
        if t.straddles:
            return True, True, None
        top2 = t.sure | t.tied
        red = _remove(case, set(case[0]) - set(top2))
        sc2 = refs.ref_fpv(red)
        tie2 = len(set(sc2.values())) == 1
        return tie2, tie2, None
    raise ValueError(what)


def _viol(kind, label, kw, i, msg, path=None, exc=None, pred=None):
    sig = {"kind": kind, "rule": label}
    if exc is not None:
        sig["exc"] = type(exc).__name__
        sig["where"] = vkit.exc_where(exc)
    if pred:
        sig["pred"] = pred
    d = {"sig": sig, "msg": f"{label} {kw} on {case_json(i)}: {msg}", "case": case_json(i),
         "config": vkit.jsonable(kw)}
    if path is not None:
        d["choices"] = list(path.choices)
        d["values"] = vkit.jsonable(path.values)
    return d


def check_outcome(e, cs, exp_m):
    """Clauses (b), (c), (d): returns a message or None."""
    L = len(e.election_states)
    prev_el = prev_x = None
    for r in range(L):
        el = vkit.flat(e.get_elected(r))
        rem = vkit.flat(e.get_remaining(r))
        x = vkit.flat(e.get_eliminated(r))
        allc = el + rem + x
        if sorted(allc) != sorted(cs):
            return (f"round {r}: elected {el} + remaining {rem} + eliminated {x} do not list each of "
                    f"{list(cs)} exactly once")
        if prev_el is not None:
            if not set(prev_el) <= set(el):
                return f"round {r}: {set(prev_el) - set(el)} lost elected status"
            if not set(prev_x) <= set(x):
                return f"round {r}: {set(prev_x) - set(x)} lost eliminated status"
        prev_el, prev_x = el, x
    if exp_m is not None:
        n_el = len(vkit.flat(e.get_elected()))
        if n_el != exp_m:
            return f"final result elects {n_el} candidates {e.get_elected()}, expected exactly {exp_m}"
    return None


def stv_pred(case, spec_m, q):
    N = sum((Fraction(w) for _, w in case[1]), Fraction(0))
    if not case[1]:
        return "zero_ballot_profile"
    return None


def run_case(i, tier):
    kind, tag, case = _get(i)
    cs = case[0]
    cnt = collections.Counter()
    out = {"counters": cnt, "viols": []}
    nconf = 0
    marg = None
    for (label, vrule, kw, exp_m, spec) in rule_menu(kind, tag, case, tier):
        nconf += 1
        if kind == "score":
            fn = _score_fn(vrule, case, kw)
        else:
            fn = vkit.election_fn(vrule, case, kw)
        npaths = 0
        try:
            paths = chooser.explore(fn, max_paths=20000)
            for path in paths:
                npaths += 1
                cnt["executions"] += 1
                _judge(i, kind, tag, case, label, vrule, kw, exp_m, spec, path, out, cnt)
        except chooser.PathLimit:
            cnt["path_limit_hit"] += 1
        cnt["paths"] += npaths
        if npaths > 1:
            cnt["nontrivial"] += 1
    cnt["configs"] += nconf
    cnt["states"] += cnt.pop("_rounds", 0)
    if isinstance(i, int) and i % 211 == 0:
        out["sample"] = {"case": case_json(i), "configurations": nconf, "paths": cnt["paths"]}
    return out


def _score_fn(vrule, case, kw):
    def fn():
        vkit.reset_steps()
        prof = vkit.mk_score_profile(case[0], case[1])
        return vkit.make_election(vrule, prof, kw)

    return fn


def _judge(i, kind, tag, case, label, vrule, kw, exp_m, spec, path, out, cnt):
    cs = case[0]
    exc = path.exc
    what = spec[0]
    pred = None
    if not case[1]:
        pred = "zero_ballot_profile"
    # ---- score rules ------------------------------------------------------------------
    if what == "score":
        L, k = common.score_rule_limits(vrule, kw)
        valid = all(common.score_ballot_valid(sc, L, k) for sc, _ in case[1])
        if not valid:
            cnt["rejected_inputs"] += 1
            return  # not an accepted profile; C05 judges acceptance
        tot = common.score_totals(case)
        st = refs.TopM(tot, kw["m"]).straddles
        must = st and kw["tiebreak"] is None
        _discipline(i, label, kw, exc, must, must, path, out, pred)
        if exc is None:
            msg = check_outcome(path.result, cs, exp_m)
            if msg:
                out["viols"].append(_viol("outcome", label, kw, i, msg, path, pred=pred))
            cnt["_rounds"] += len(path.result.election_states)
            cnt["transitions"] += len(path.result.election_states) - 1
            cnt["traces"] += 1
        return
    # ---- termination -------------------------------------------------------------------
    if isinstance(exc, vkit.HorizonExceeded):
        out["viols"].append(_viol("nontermination", label, kw, i, str(exc), path, exc=exc,
                                  pred=pred or _pv_pred(case, kw)))
        return
    # ---- STV family: lock-step judges the exception discipline -----------------------------
    if what == "stv":
        _, m, q, sim, tb, tr = spec
        cfg = refs.STVConfig(m, q, sim, tb, tr, case)
        states = getattr(exc, "_vk_partial", ()) if exc is not None else vkit.canon_election(path.result)
        v = lockstep.follow(states, exc, case, cfg)
        if v.status == "out_of_domain":
            pred = v.ood_reason or pred
        elif cfg.thr <= 0:
            pred = "threshold_zero"
        if exc is not None:
            ok = v.status == "ok"  # ValueError exactly where the reference needs a tiebreak
            if not ok:
                out["viols"].append(_viol("exception", label, kw, i,
                                          f"{type(exc).__name__}: {exc} escaped (reference: {v.status} {v.ood_reason or ''} {v.msg[:200]})",
                                          path, exc=exc, pred=pred))
            return
        if v.status == "violation" and v.ignored_tie:
            out["viols"].append(_viol("tie_not_refused", label, kw, i, v.msg, path, pred=pred))
        msg = check_outcome(path.result, cs, exp_m)
        if msg:
            out["viols"].append(_viol("outcome", label, kw, i, msg, path, pred=pred))
        cnt["_rounds"] += len(states)
        cnt["transitions"] += max(0, len(states) - 1)
        cnt["traces"] += 1
        return
    if what == "alaska":
        _judge_alaska(i, case, label, kw, exp_m, spec, path, out, cnt, pred)
        return
    # ---- single / double round rules ------------------------------------------------------
    must, may, _ = expected_raise(spec, kind, case, path, None)
    _discipline(i, label, kw, exc, must, may, path, out, pred or _rd_pred(label, case, kw))
    if exc is None:
        e = path.result
        msg = check_outcome(e, cs, exp_m)
        if msg is None and what == "dom":
            marg = refs.ref_pairwise(case)
            top = refs.ref_tiers(cs, marg)[0] if case[1] else frozenset(cs)
            got = frozenset(vkit.flat(e.get_elected()))
            if got != top:
                msg = f"DominatingSets elected {sorted(got)}, top dominating tier is {sorted(top)}"
        if msg:
            out["viols"].append(_viol("outcome", label, kw, i, msg, path, pred=pred))
        cnt["_rounds"] += len(e.election_states)
        cnt["transitions"] += len(e.election_states) - 1
        cnt["traces"] += 1


def _pv_pred(case, kw):
    fp = refs.ref_fpv(case)
    if any(v == 0 for v in fp.values()):
        return "candidate_without_first_place_votes"
    return None


def _rd_pred(label, case, kw):
    if label in ("RandomDictator", "BoostedRandomDictator"):
        listed = {c for r, _ in case[1] for p in r for c in p}
        if len(listed) < kw.get("m", 1):
            return "ballots_exhaust_before_m"
        if label == "BoostedRandomDictator" and kw.get("m") == len(case[0]):
            return "last_seat_single_candidate"
    if label == "PluralityVeto":
        return _pv_pred(case, kw)
    return None


def _discipline(i, label, kw, exc, must, may, path, out, pred):
    if exc is None:
        if must:
            out["viols"].append(_viol("tie_not_refused", label, kw, i,
                                      "a tie on the deciding tally straddles the last seat and no tiebreak was "
                                      "requested, but a result was returned", path, pred=pred))
        return
    if isinstance(exc, ValueError) and may:
        return
    out["viols"].append(_viol("exception", label, kw, i,
                              f"{type(exc).__name__}: {exc} escaped"
                              + ("" if not isinstance(exc, ValueError) else " although no tie straddles the last seat"),
                              path, exc=exc, pred=pred))


def _judge_alaska(i, case, label, kw, exp_m, spec, path, out, cnt, pred):
    _, m1, m2, q, sim, tb, tr = spec
    cs = case[0]
    exc = path.exc
    fp = refs.ref_fpv(case)
    t = refs.TopM(fp, m1)
    if exc is None:
        e = path.result
        if tb is None and t.straddles:
            out["viols"].append(_viol("tie_not_refused", label, kw, i,
                                      "first-stage tie straddles m_1 with tiebreak None but a result was returned", path, pred=pred))
        msg = check_outcome(e, cs, exp_m)
        if msg:
            out["viols"].append(_viol("outcome", label, kw, i, msg, path, pred=pred))
        cnt["_rounds"] += len(e.election_states)
        cnt["transitions"] += len(e.election_states) - 1
        cnt["traces"] += 1
        return
    if isinstance(exc, ValueError) and tb is None and t.straddles:
        return
    # inner STV: follow its partial trace on its own (reduced) profile
    allp = getattr(exc, "_vk_partial_all", [])
    inner = [x for x in allp if x[0] == "STV"]
    if inner:
        name, states, prof = inner[-1]
        rcands, rballots = prof
        rcase = (rcands, tuple((r, w) for (r, sc), w in rballots))
        cfg = refs.STVConfig(m2, q, sim, tb, tr, rcase)
        # the inner STV may have finished (then Alaska failed while replaying it): judge only its prefix
        v = lockstep.follow(states, exc, rcase, cfg)
        if v.status == "ok" and isinstance(exc, ValueError):
            return
        if v.status == "out_of_domain":
            pred = v.ood_reason or pred
        elif cfg.thr <= 0:
            pred = "threshold_zero"
    out["viols"].append(_viol("exception", label, kw, i, f"{type(exc).__name__}: {exc} escaped",
                              path, exc=exc, pred=pred))


def finalize(agg, tier):
    return {"coverage": {
        "exhaustive": agg["counters"].get("path_limit_hit", 0) == 0,
        "rule": "one case = one profile; all rule configurations are run on it and every RNG path explored; "
                "nontrivial = (profile, configuration) pairs whose choice tree has more than one path",
        "explanation": "states = recorded rounds inspected (each checked for the partition/monotonicity invariant); "
                       "transitions = round-to-round steps; traces = complete implementation runs judged",
    }}

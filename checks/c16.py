"""C16 -- generated ballots follow the documented model distributions.

X1: the complete RNG choice tree of each generator run is enumerated with exact edge
probabilities, so the law of the generated profile is a finite sum that is compared with the
closed form; X2: the one-step transition kernels of the two MCMC samplers are extracted
from the real step functions and checked for stationarity, irreducibility and aperiodicity.
"""

from __future__ import annotations

import collections
import itertools
import math
from fractions import Fraction

import numpy as np

from engine import chooser, vkit
from engine.chooser import CH
from . import gens

ID = "C16"
LEVEL = "model_checking"
CHUNK = 2
F = Fraction
_CASES = None
_TIER = ["quick"]
TOL = 1e-9


def path_budget():
    return 1500 if _TIER[0] == "quick" else 25000


def too_big(fn1, N):
    """Estimate the number of paths for N ballots from the number of paths for one ballot."""
    if N <= 1:
        return False
    n1 = 0
    try:
        for _ in chooser.explore(fn1, max_paths=path_budget()):
            n1 += 1
    except chooser.PathLimit:
        return True
    return n1 ** N > path_budget()

LAW_MODELS = ("name_PlackettLuce", "short_name_PlackettLuce", "name_BradleyTerry", "name_Cumulative", "slate_PlackettLuce",
              "slate_BradleyTerry")


def build_cases(tier, seed):
    global _CASES
    _TIER[0] = tier
    cs = []
    two = gens.two_bloc_params(tier)
    one = gens.one_bloc_params(tier)
    for k, p in enumerate(two):
        ncand = len(gens.all_cands(p))
        for model in LAW_MODELS:
            for N in (1, 2) + ((3,) if tier != "quick" and ncand <= 3 else ()):
                if model == "short_name_PlackettLuce":
                    for L in sorted({1, ncand - 1, ncand} - {0}):
                        cs.append(("law", model, ("two", k), N, {"ballot_length": L}))
                elif model == "name_Cumulative":
                    for nv in (1, 2):
                        cs.append(("law", model, ("two", k), N, {"num_votes": nv}))
                else:
                    cs.append(("law", model, ("two", k), N, {}))
        for model in ("AlternatingCrossover", "CambridgeSampler"):
            for N in ((1, 2) if tier == "quick" else (1, 2, 3, 4)):
                cs.append(("xover", model, ("two", k), N, {}))
        if p["props"]["X"] == 0.5 or tier != "quick":
            cs.append(("sbt_mcmc", "slate_BradleyTerry_MCMC", ("two", k), 0, {}))
    # the same generator object asked twice: the second profile must follow the same law, independently of the first
    for k, p in enumerate(two):
        if k % 4 == 0:
            for model in LAW_MODELS + ("AlternatingCrossover", "CambridgeSampler"):
                ex = {"ballot_length": 2} if model == "short_name_PlackettLuce" else ({"num_votes": 2} if model == "name_Cumulative" else {})
                cs.append(("reuse", model, ("two", k), 1, ex))
    for k, p in enumerate(one):
        for model in ("name_PlackettLuce", "name_BradleyTerry", "name_Cumulative", "slate_PlackettLuce", "slate_BradleyTerry"):
            for N in (1, 2, 3):
                ex = {"num_votes": 2} if model == "name_Cumulative" else {}
                cs.append(("law", model, ("one", k), N, ex))
        cs.append(("bt_mcmc", "name_BradleyTerry_MCMC", ("one", k), 0, {}))
    for k in range(len(two)):
        if k % 3 == 0:
            cs.append(("bt_mcmc", "name_BradleyTerry_MCMC", ("two", k), 0, {}))
    for k, p in enumerate(gens.three_bloc_params(tier)):
        for model in ("name_PlackettLuce", "name_BradleyTerry", "name_Cumulative", "slate_PlackettLuce"):
            for N in (1, 2, 3):
                ex = {"num_votes": 2} if model == "name_Cumulative" else {}
                cs.append(("law", model, ("three", k), N, ex))
    for n in (2, 3):
        for N in (1, 2):
            cs.append(("ic", "ImpartialCulture", ("cands", n), N, {}))
    for n in (2, 3):
        for N in (1, 2):
            cs.append(("spatial", "OneDimSpatial", ("cands", n), N, {}))
    for N in (1, 2):
        cs.append(("spatial", "Spatial", ("cands", 2), N, {}))
        cs.append(("spatial", "ClusteredSpatial", ("cands", 2), N, {}))
    cs.append(("spatial", "Spatial", ("cands", 3), 1, {}))
    # positions far from the origin (magnitude 1e7, spread 1e-3): distance comparisons must not lose the spread
    for N in (1, 2):
        cs.append(("spatial", "Spatial_far", ("cands", 2), N, {}))
    cs.append(("spatial", "Spatial_far", ("cands", 3), 1, {}))
    cs.append(("spatial", "OneDimSpatial_far", ("cands", 3), 2, {}))
    _CASES = cs
    meta = {
        "family": "exact profile laws (N=1,2 ballots; all RNG paths) of name_/short_name_PlackettLuce, name_BradleyTerry, name_Cumulative, "
                  "slate_PlackettLuce, slate_BradleyTerry on the C14 parameter grid, per bloc and aggregated; AlternatingCrossover and CambridgeSampler "
                  "(custom 4-type historical table) for N<=2 (quick) / N<=4; ImpartialCulture; one-step kernels of name-BT MCMC (all rankings of <=3 supported candidates) "
                  "and slate-BT MCMC (all slate patterns, cohesion on both sides of 1/2); spatial generators on finite position grids",
        "assumptions": ["laws of the RNG primitives are trusted (E1 table); verdicts read 'the code composes the primitives into the documented law'",
                        "float tolerance 1e-9 on probabilities",
                        "AlternatingCrossover with slates of different size truncates crossover ballots (zip); its law is checked on equal-size slates only"],
    }
    return list(range(len(cs))), meta


def _get(i):
    return _CASES[i] if isinstance(i, int) else i


def params_of(ref):
    kind, k = ref
    if kind == "explicit":
        return k
    if kind == "two":
        return gens.two_bloc_params(_TIER[0])[k]
    if kind == "one":
        return gens.one_bloc_params(_TIER[0])[k]
    if kind == "three":
        return gens.three_bloc_params(_TIER[0])[k]
    return None


def case_json(i):
    what, model, ref, N, ex = _get(i)
    d = {"what": what, "model": model, "params": list(ref), "N": N, "extra": ex}
    p = params_of(ref)
    if p:
        d["param_values"] = vkit.jsonable(p)
    return d


def case_from_json(j):
    return (j["what"], j["model"], tuple(j["params"]), j["N"], j.get("extra", {}))


witness_case = case_from_json


def _viol(kind, model, i, msg, pred=None):
    sig = {"kind": kind, "rule": model}
    if pred:
        sig["pred"] = pred
    return {"sig": sig, "msg": f"{model} on {case_json(i)}: {msg}", "case": case_json(i)}


def fmt_key(k):
    return str(vkit.jsonable(k))[:260]


# ------------------------------------------------------------------------------------
def run_law(i, model, p, N, ex, cnt, out):
    blocs = list(p["props"].keys())

    def fn():
        g = gens.build_generator(model, p, **ex)
        by_bloc, agg = gens.generate(model, g, N, True)
        return tuple(gens.law_key_from_profile(by_bloc[b]) for b in blocs) + (gens.law_key_from_profile(agg),)

    def fn1():
        g = gens.build_generator(model, p, **ex)
        return gens.generate(model, g, 1, False) and None

    if too_big(fn1, N):
        cnt["skipped_by_path_estimate"] += 1
        return
    try:
        law, npaths, excs = gens.observed_law(fn, max_paths=path_budget() * 4)
    except chooser.PathLimit:
        cnt["skipped_too_many_paths"] += 1
        return
    cnt["executions"] += npaths
    cnt["paths"] += npaths
    if excs:
        cnt["skipped_exception"] += 1  # C14 judges exceptions
        return
    # bloc sizes as produced (the apportionment itself is judged by C14)
    any_key = next(iter(law))
    sizes = [sum(c for _, c in any_key[bi]) for bi in range(len(blocs))]
    ref_blocs = []
    for b, n_b in zip(blocs, sizes):
        single = gens.single_ballot_law(model, p, b, ex)
        s = sum(single.values())
        if abs(s - 1) > 1e-9:
            raise chooser.ReplayDivergence(f"reference law of {model} sums to {s}")
        ref_blocs.append(gens.iid_multiset_law(single, n_b))
    # marginal per bloc
    for bi, b in enumerate(blocs):
        got = {}
        for k, pr in law.items():
            got[k[bi]] = got.get(k[bi], 0.0) + pr
        w = gens.compare_laws(got, ref_blocs[bi], TOL)
        if w:
            out["viols"].append(_viol("law", model, i,
                                      f"bloc {b} ({sizes[bi]} ballots): P(profile {fmt_key(w[1])}) = {w[2]:.12g} but the model prescribes {w[3]:.12g}"))
            return
    # joint = product (blocs independent), aggregate = sum
    got = {}
    for k, pr in law.items():
        got[k[-1]] = got.get(k[-1], 0.0) + pr
    w = gens.compare_laws(got, gens.combine_blocs(ref_blocs), TOL)
    if w:
        out["viols"].append(_viol("law", model, i, f"aggregate: P(profile {fmt_key(w[1])}) = {w[2]:.12g} but the model prescribes {w[3]:.12g}"))
        return
    cnt["laws_checked"] += 1
    cnt["traces"] += 1
    if len(law) > 1:
        cnt["nontrivial"] += 1
    cnt["transitions"] += len(law)


# ------------------------------------------------------------------------------------
def run_reuse(i, model, p, ex, cnt, out):
    extra = dict(ex)
    if model == "CambridgeSampler":
        extra["path"] = gens.cambridge_table_path()

    def one():
        g = gens.build_generator(model, p, **extra)
        return gens.law_key_from_profile(gens.generate(model, g, 1, False))

    def two():
        g = gens.build_generator(model, p, **extra)
        a = gens.law_key_from_profile(gens.generate(model, g, 1, False))
        b = gens.law_key_from_profile(gens.generate(model, g, 1, False))
        return (a, b)

    try:
        l1, n1, e1 = gens.observed_law(one, max_paths=path_budget())
        if n1 * n1 > path_budget() * 4:
            cnt["skipped_by_path_estimate"] += 1
            return
        l2, n2, e2 = gens.observed_law(two, max_paths=path_budget() * 4)
    except chooser.PathLimit:
        cnt["skipped_too_many_paths"] += 1
        return
    cnt["executions"] += n1 + n2
    if e1 or e2:
        cnt["skipped_exception"] += 1
        return
    exp = {(a, b): pa * pb for a, pa in l1.items() for b, pb in l1.items()}
    w = gens.compare_laws(l2, exp, TOL)
    if w:
        out["viols"].append(_viol("reuse", model, i,
                                  f"two profiles drawn from one generator object: P({fmt_key(w[1])}) = {w[2]:.12g}, but two independent draws from "
                                  f"the one-profile law give {w[3]:.12g}"))
        return
    cnt["laws_checked"] += 1
    cnt["traces"] += 1
    if len(l1) > 1:
        cnt["nontrivial"] += 1


def xover_single_laws(model, p, bloc):
    """(law of a bloc-type ballot, law of a cross-type ballot) for AC / Cambridge."""
    blocs = list(p["props"].keys())
    opp = [b for b in blocs if b != bloc][0]
    own_nz, _ = gens.normalized(p["supports"][bloc][bloc])
    opp_nz, _ = gens.normalized(p["supports"][bloc][opp])
    if model == "AlternatingCrossover":
        own_pl = gens.pl_law(own_nz)
        opp_pl = gens.pl_law(opp_nz)
        bl, cr = {}, {}
        for (o, po), (q, pq) in itertools.product(own_pl.items(), opp_pl.items()):
            k = (tuple((c,) for c in o + q), None)
            bl[k] = bl.get(k, 0.0) + po * pq
            alt = tuple(c for pair in zip(q, o) for c in pair)
            k2 = (tuple((c,) for c in alt), None)
            cr[k2] = cr.get(k2, 0.0) + po * pq
        return bl, cr
    # Cambridge: PL order of the cohesion-combined interval, historical slate patterns
    c = p["cohesion"][bloc][bloc]
    comb = {}
    for cand, v in own_nz.items():
        if v * c > 0:
            comb[cand] = v * c
    for cand, v in opp_nz.items():
        if v * (1 - c) > 0:
            comb[cand] = v * (1 - c)
    tot = sum(comb.values())
    comb = {k: v / tot for k, v in comb.items()}
    pl = gens.pl_law(comb)
    hist = {bloc: "W" if p["props"][bloc] >= 0.5 else "C"}
    # W_bloc = first bloc with prop >= .5 (constructor default), the other is C
    wb = [b for b in blocs if p["props"][b] >= 0.5][0]
    hist = {b: ("W" if b == wb else "C") for b in blocs}
    table = gens.CAMBRIDGE_TABLE
    own_first = {t: f for t, f in table.items() if t[0] == hist[bloc]}
    opp_first = {t: f for t, f in table.items() if t[0] == hist[opp]}

    def law_for(types):
        tot_f = sum(types.values())
        res = {}
        for t, f in types.items():
            for order, po in pl.items():
                own_o = [x for x in order if x in p["slates"][bloc]]
                opp_o = [x for x in order if x in p["slates"][opp]]
                full = []
                for lab in t:
                    if lab == hist[bloc]:
                        if own_o:
                            full.append(own_o.pop(0))
                    else:
                        if opp_o:
                            full.append(opp_o.pop(0))
                k = (tuple((x,) for x in full) or None, None)
                res[k] = res.get(k, 0.0) + po * f / tot_f
        return res

    return law_for(own_first), law_for(opp_first)


def run_xover(i, model, p, N, ex, cnt, out):
    blocs = list(p["props"].keys())
    sizes_nz = [len(gens.normalized(p["supports"]["X"][s])[0]) for s in blocs]
    if model == "AlternatingCrossover" and len(set(sizes_nz)) != 1:
        cnt["skipped"] += 1
        return
    if model == "AlternatingCrossover" and any(len(gens.normalized(p["supports"][b][s])[1]) for b in blocs for s in blocs):
        cnt["skipped"] += 1
        return
    extra = {"path": gens.cambridge_table_path()} if model == "CambridgeSampler" else {}

    def fn():
        g = gens.build_generator(model, p, **extra)
        by_bloc, agg = gens.generate(model, g, N, True)
        return tuple(gens.law_key_from_profile(by_bloc[b]) for b in blocs)

    def fn1():
        g = gens.build_generator(model, p, **extra)
        return gens.generate(model, g, 1, False) and None

    if too_big(fn1, N):
        cnt["skipped_by_path_estimate"] += 1
        return
    try:
        law, npaths, excs = gens.observed_law(fn, max_paths=path_budget() * 4)
    except chooser.PathLimit:
        cnt["skipped_too_many_paths"] += 1
        return
    cnt["executions"] += npaths
    cnt["paths"] += npaths
    if excs:
        cnt["skipped_exception"] += 1
        return
    # voter-type counts: the apportionment the implementation used (judged by C14)
    import apportionment.methods as apportion

    coh = {b: p["cohesion"][b][b] for b in blocs}
    four = []
    for b in blocs:
        four += [coh[b] * p["props"][b], (1 - coh[b]) * p["props"][b]]
    counts = apportion.compute("huntington", four, N)
    for bi, b in enumerate(blocs):
        nb, nc = counts[2 * bi], counts[2 * bi + 1]
        bl, cr = xover_single_laws(model, p, b)
        ref = gens.combine_blocs([gens.iid_multiset_law(bl, nb), gens.iid_multiset_law(cr, nc)])
        got = {}
        for k, pr in law.items():
            got[k[bi]] = got.get(k[bi], 0.0) + pr
        w = gens.compare_laws(got, ref, TOL)
        if w:
            out["viols"].append(_viol("law", model, i,
                                      f"bloc {b} ({nb} bloc + {nc} crossover voters): P(profile {fmt_key(w[1])}) = {w[2]:.12g} but the model "
                                      f"prescribes {w[3]:.12g}", pred=("second_ballot_of_a_bloc" if nb + nc >= 2 else None)))
            return
    cnt["laws_checked"] += 1
    cnt["traces"] += 1
    cnt["transitions"] += len(law)
    if len(law) > 1:
        cnt["nontrivial"] += 1


# ------------------------------------------------------------------------------------
def check_kernel(P, pi, states, what, model, i, out, pred=None):
    """P: dict state -> dict state -> prob.  Stationarity, irreducibility, aperiodicity."""
    for s in states:
        tot = sum(P[s].values())
        if abs(tot - 1) > 1e-9:
            raise chooser.ReplayDivergence(f"kernel row of {s} sums to {tot}")
    # stationarity
    for t in states:
        flow = sum(pi[s] * P[s].get(t, 0.0) for s in states)
        if abs(flow - pi[t]) > 1e-10:
            out["viols"].append(_viol("stationarity", model, i,
                                      f"{what}: the target distribution is not stationary for the sampler's one-step kernel: "
                                      f"(pi P)({fmt_key(t)}) = {flow:.12g} but pi = {pi[t]:.12g}", pred))
            return False
    support = [s for s in states if pi[s] > 0]
    # irreducible on the support
    for s in support:
        seen = {s}
        stack = [s]
        while stack:
            x = stack.pop()
            for y, pr in P[x].items():
                if pr > 0 and y not in seen:
                    seen.add(y)
                    stack.append(y)
        if not set(support) <= seen:
            out["viols"].append(_viol("irreducible", model, i, f"{what}: state {fmt_key(s)} cannot reach every state of the target's support", pred))
            return False
    # aperiodicity is deliberately NOT demanded: the property asks for the stationary distribution only (with two equally
    # supported candidates the name-BT chain accepts every swap and has period 2, yet its stationary distribution is the target)
    return True


def run_bt_mcmc(i, model, p, cnt, out):
    from votekit.ballot import Ballot

    g = gens.build_generator("name_BradleyTerry_MCMC", p)
    for b in p["props"]:
        iv, zero = gens.combined_interval(p, b)
        if len(iv) < 2:
            continue
        pi_tab = gens.bt_table(iv)
        states = list(pi_tab)
        real_iv = g.pref_interval_by_bloc[b].interval
        P = {}
        for s in states:
            seed = Ballot(ranking=tuple(frozenset({c}) for c in s))

            def fn(seed=seed):
                prof = g._BT_mcmc(1, real_iv, seed, zero_cands=g.pref_interval_by_bloc[b].zero_cands)
                (bal,) = prof.ballots
                return tuple(next(iter(pos)) for pos in bal.ranking if len(pos) == 1 and next(iter(pos)) in iv)

            row, npaths, excs = gens.observed_law(fn)
            cnt["executions"] += npaths
            cnt["transitions"] += len(row)
            if excs:
                out["viols"].append(_viol("exception", model, i, f"_BT_mcmc raised {type(excs[0].exc).__name__}: {excs[0].exc}"))
                return
            P[s] = row
        cnt["states"] += len(states)
        if not check_kernel(P, pi_tab, states, f"bloc {b} name-BT chain on {len(states)} rankings", model, i, out):
            return
        # the recorded sequence of generate_profile_MCMC(N): multiset of the first N states of the chain from the seed
        seed_state = tuple(c for c in g.pref_interval_by_bloc[b].non_zero_cands)
        if len(p["props"]) == 1:
            for N in (1, 2, 3):
                def fn2():
                    g2 = gens.build_generator("name_BradleyTerry_MCMC", p)
                    return gens.law_key_from_profile(g2.generate_profile_MCMC(N))

                got, npaths, excs = gens.observed_law(fn2)
                cnt["executions"] += npaths
                exp = {}

                def rec(state, k, ms, pr):
                    if k == N:
                        key = tuple(sorted(ms.items(), key=repr))
                        exp[key] = exp.get(key, 0.0) + pr
                        return
                    for t, pt in P[state].items():
                        if pt == 0:
                            continue
                        m2 = dict(ms)
                        bk = (gens.with_zero_tail(t, zero), None)
                        m2[bk] = m2.get(bk, 0) + 1
                        rec(t, k + 1, m2, pr * pt)

                rec(seed_state, 0, {}, 1.0)
                w = gens.compare_laws(got, exp, TOL)
                if w:
                    out["viols"].append(_viol("recorded_sequence", model, i,
                                              f"N={N}: P(recorded profile {fmt_key(w[1])}) = {w[2]:.12g} but the chain started at the seed gives {w[3]:.12g}"))
                    return
        cnt["laws_checked"] += 1
        cnt["traces"] += 1
        cnt["nontrivial"] += 1


def run_sbt_mcmc(i, model, p, cnt, out):
    g = gens.build_generator("slate_BradleyTerry_MCMC", p)
    for b in p["props"]:
        pi_tab = gens.slate_bt_type_law(p, b)
        states = list(pi_tab)
        if len(states) < 2:
            continue
        sizes = [len(gens.normalized(d)[0]) for d in p["supports"][b].values()]
        K = min(sizes[0] * sizes[1] + 1, 5)

        def fn():
            g2 = gens.build_generator("slate_BradleyTerry_MCMC", p)
            return tuple(tuple(t) for t in g2._sample_ballot_types_MCMC(b, K))

        try:
            law, npaths, excs = gens.observed_law(fn, max_paths=100000)
        except chooser.PathLimit:
            cnt["skipped_too_many_paths"] += 1
            continue
        cnt["executions"] += npaths
        if excs:
            out["viols"].append(_viol("exception", model, i, f"_sample_ballot_types_MCMC raised {type(excs[0].exc).__name__}: {excs[0].exc}"))
            return
        seed = tuple(x for s, n in zip(p["supports"][b].keys(), sizes) for x in [s] * n)
        # transition counts by position; the kernel must be the same at every step
        P = {}
        ok = True
        for pos in range(K):
            num = collections.defaultdict(float)
            den = collections.defaultdict(float)
            for seq, pr in law.items():
                prev = seed if pos == 0 else seq[pos - 1]
                num[(prev, seq[pos])] += pr
                den[prev] += pr
            for (s, t), v in num.items():
                pr = v / den[s]
                if s in P and t in P[s] and abs(P[s][t] - pr) > 1e-9:
                    out["viols"].append(_viol("not_markov", model, i, f"transition {s}->{t} has probability {P[s][t]:.9g} at one step and {pr:.9g} at step {pos + 1}"))
                    return
                P.setdefault(s, {})[t] = pr
        cnt["transitions"] += sum(len(r) for r in P.values())
        cnt["states"] += len(P)
        missing = [s for s in states if s not in P]
        if missing:
            cnt["kernel_rows_unreached"] += len(missing)
            sub = [s for s in states if s in P]
        else:
            sub = states
        if not missing:
            pred = "cohesion_below_half" if p["cohesion"][b][b] < 0.5 else None
            if not check_kernel(P, pi_tab, states, f"bloc {b} slate-BT chain on {len(states)} slate patterns (cohesion {p['cohesion'][b][b]})",
                                model, i, out, pred):
                return
        cnt["laws_checked"] += 1
        cnt["traces"] += 1
        cnt["nontrivial"] += 1


# ------------------------------------------------------------------------------------
def run_ic(i, n, N, cnt, out):
    from votekit import ballot_generator as bg

    cands = ["a", "b", "c"][:n]
    alphas = []

    def fn():
        g = bg.ImpartialCulture(candidates=cands)
        return gens.law_key_from_profile(g.generate_profile(N))

    law = {}
    npaths = 0
    for path in chooser.explore_all(fn):
        npaths += 1
        if path.exc is not None:
            out["viols"].append(_viol("exception", "ImpartialCulture", i, f"{type(path.exc).__name__}: {path.exc}"))
            return
        law[path.result] = law.get(path.result, 0.0) + float(path.prob)
        alphas.append(path.dirichlet)
    cnt["executions"] += npaths
    nf = math.factorial(n)
    for a in alphas:
        if len(a) != 1 or len(a[0]) != nf or any(x < 1e10 for x in a[0]) or len(set(a[0])) != 1:
            out["viols"].append(_viol("dirichlet", "ImpartialCulture", i, f"Dirichlet parameter {a} is not a large constant vector of length {nf}!"))
            return
    single = {(tuple((c,) for c in perm), None): 1.0 / nf for perm in itertools.permutations(cands)}
    w = gens.compare_laws(law, gens.iid_multiset_law(single, N), TOL)
    if w:
        out["viols"].append(_viol("law", "ImpartialCulture", i, f"P(profile {fmt_key(w[1])}) = {w[2]:.12g}, uniform law gives {w[3]:.12g}"))
        return
    cnt["laws_checked"] += 1
    cnt["traces"] += 1
    cnt["nontrivial"] += 1


def acceptable_rankings(vpos, cpos, dist):
    d = {c: dist(vpos, x) for c, x in cpos.items()}
    cs = list(cpos)
    return {perm for perm in itertools.permutations(cs) if all(d[perm[k]] <= d[perm[k + 1]] + 1e-12 for k in range(len(cs) - 1))}


def run_spatial(i, model, n, N, cnt, out):
    from votekit import ballot_generator as bg

    cands = ["a", "b", "c"][:n]
    far = model.endswith("_far")
    label = model
    model = model.replace("_far", "")
    grid2 = (1e7, 1e7 + 0.001) if far else (0.0, 1.0)
    grid1 = (1e7 - 0.001, 1e7, 1e7 + 0.001, 1e7 + 0.002) if far else (-1.0, 0.0, 1.0, 2.0)

    # the constructors of Spatial / ClusteredSpatial probe their distributions; that happens outside the explored run (real RNG)
    if model == "OneDimSpatial":
        g = bg.OneDimSpatial(candidates=cands)
    elif model == "Spatial":
        g = bg.Spatial(candidates=cands, voter_dist=np.random.uniform, voter_dist_kwargs={"low": 0.0, "high": 1.0, "size": 2},
                       candidate_dist=np.random.uniform, candidate_dist_kwargs={"low": 0.0, "high": 1.0, "size": 2})
    else:
        g = bg.ClusteredSpatial(candidates=cands, voter_dist=np.random.normal, voter_dist_kwargs={"scale": 1.0, "size": 2},
                                candidate_dist=np.random.uniform, candidate_dist_kwargs={"low": 0.0, "high": 1.0, "size": 2})

    def fn():
        if model == "OneDimSpatial":
            CH.grid = grid1
            return g.generate_profile(N)
        CH.grid = grid2
        if model == "Spatial":
            return g.generate_profile(N)
        return g.generate_profile_with_dict({c: (1 if k < N else 0) for k, c in enumerate(cands)})

    try:
        for path in chooser.explore(fn, max_paths=300000):
            cnt["executions"] += 1
            if path.exc is not None:
                out["viols"].append(_viol("exception", model, i, f"{type(path.exc).__name__}: {path.exc}"))
                return
            draws = [v[1] for v in path.values if isinstance(v, tuple) and str(v[0]).endswith("-grid")]
            if model == "OneDimSpatial":
                prof = path.result
                cpos = {c: float(draws[k]) for k, c in enumerate(cands)}
                vs = [float(x) for x in draws[n]]
                dist = lambda a, b: abs(a - b)
            else:
                prof, cdict, varr = path.result
                # constructor probes consumed the first draws; the generation draws are the last n + N
                gen_draws = draws[-(n + N):]
                cpos = {c: tuple(float(x) for x in gen_draws[k]) for k, c in enumerate(cands)}
                vs = [tuple(float(x) for x in gen_draws[n + k]) for k in range(N)]
                if {c: tuple(float(x) for x in cdict[c]) for c in cands} != cpos or [tuple(float(x) for x in row) for row in varr] != vs:
                    out["viols"].append(_viol("positions", model, i, f"returned positions {cdict} / {varr} are not the ones drawn {cpos} / {vs}"))
                    return
                dist = lambda a, b: math.dist(a, b)
            ballots = []
            for b in prof.ballots:
                if b.weight.denominator != 1:
                    out["viols"].append(_viol("weights", model, i, "non-integer weight"))
                    return
                ballots += [tuple(next(iter(pos)) for pos in b.ranking)] * int(b.weight)
            if len(ballots) != N:
                out["viols"].append(_viol("one_ballot_per_voter", model, i, f"{len(ballots)} ballots for {N} voters"))
                return
            acc = [acceptable_rankings(v, cpos, dist) for v in vs]
            okm = any(all(perm[k] in acc[k] for k in range(N)) for perm in itertools.permutations(ballots))
            if not okm:
                out["viols"].append(_viol("distance_order", model, i,
                                          f"candidates at {cpos}, voters at {vs}: ballots {ballots} do not rank the candidates by increasing distance"))
                return
            cnt["traces"] += 1
            cnt["transitions"] += N
    finally:
        CH.grid = None
    cnt["nontrivial"] += 1


def run_case(i, tier):
    _TIER[0] = tier
    what, model, ref, N, ex = _get(i)
    cnt = collections.Counter()
    out = {"counters": cnt, "viols": []}
    p = params_of(ref)
    CH.grid = None
    import time as _t
    _t0 = _t.time()
    if what == "law":
        run_law(i, model, p, N, ex, cnt, out)
    elif what == "xover":
        run_xover(i, model, p, N, ex, cnt, out)
    elif what == "reuse":
        run_reuse(i, model, p, ex, cnt, out)
    elif what == "bt_mcmc":
        run_bt_mcmc(i, model, p, cnt, out)
    elif what == "sbt_mcmc":
        run_sbt_mcmc(i, model, p, cnt, out)
    elif what == "ic":
        run_ic(i, ref[1], N, cnt, out)
    else:
        run_spatial(i, model, ref[1], N, cnt, out)
    cnt["states"] += 1
    cnt["cpu_ms_" + what + "_" + model] += int((_t.time() - _t0) * 1000)
    if isinstance(i, int) and i % 131 == 0:
        out["sample"] = {"case": case_json(i), "paths": cnt["executions"]}
    return out


def finalize(agg, tier):
    return {"coverage": {
        "exhaustive": agg["counters"].get("skipped_too_many_paths", 0) == 0,
        "path_budget_per_case": path_budget(),
        "rule": "one case = (generator, parameter set, N) whose complete choice tree is enumerated and whose exact output law is compared with the "
                "closed form, or one MCMC kernel extracted state by state; nontrivial = laws with more than one outcome / kernels",
        "explanation": "states = cases plus Markov-chain states whose kernel row was extracted; transitions = distinct outcomes / kernel entries; "
                       "traces = laws or kernels fully compared",
    }}

"""C13 -- composite and alias rules equal the composition they are documented to be.

X1 paired exploration: aliases are compared path by path under the same choice vector;
TopTwo / Alaska are compared as exact outcome distributions with their documented
composition (reference for TopTwo, separately constructed real Plurality + STV for Alaska).
"""

from __future__ import annotations

import collections
import itertools
from fractions import Fraction

from engine import chooser, families as fam, refs, vkit
from . import common
from .c01 import _remove

ID = "C13"
LEVEL = "model_checking"
CHUNK = 2
F = Fraction
_CASES = None


def build_cases(tier, seed):
    global _CASES
    _CASES = common.rank_profiles(tier, rational=True, extra4=False)
    if tier != "quick":
        # four candidates: every 8th profile (Alaska alone has 240 configurations on four candidates, each compared with two
        # separately explored component elections)
        from engine import families as _f

        _CASES += [("int", c) for c in _f.prof_list(_f.rank_family(4), 2, (1, 2), _f.cands(4))[::8]]
    # ballots with tied positions, for the rules that accept them (SNTV vs Plurality, default arguments, TopTwo)
    _CASES += [("weak", c) for c in common.weak_profiles("quick")[:: (3 if tier == "quick" else 1)]]
    meta = {
        "family": common.family_text(tier, extra4=False) + " + tied ballots Prof(Weak(3),2,{1,2}) (every 3rd in quick) for SNTV/Plurality, default arguments and TopTwo" + ("" if tier == "quick" else " + every 8th of Prof(Rank(4),2,{1,2})") + " x (IRV vs STV m=1; SNTV vs Plurality; SequentialRCV vs STV with a harness-written "
                  "full-weight transfer; TopTwo vs reference composition; Alaska vs real Plurality stage + separately constructed real STV) "
                  "x all configurations x all RNG paths",
        "assumptions": ["aliases consume the same sequence of draws as their counterpart (compared under identical choice vectors)",
                        "TopTwo/Alaska compared as exact outcome distributions (path probabilities as Fractions)",
                        "configurations in which a component raises are compared on the exception type"],
    }
    return list(range(len(_CASES))), meta


def _get(i):
    return _CASES[i] if isinstance(i, int) else i


def case_json(i):
    return fam.case_to_json(_get(i)[1])


def case_from_json(j):
    c = fam.case_from_json(j)
    tag = "int" if all(F(w).denominator == 1 for _, w in c[1]) else "rat"
    if any(len(pos) > 1 for r, _ in c[1] for pos in r):
        tag = "weak"
    return (tag, c)


witness_case = case_from_json


def _viol(kind, label, kw, i, msg):
    return {"sig": {"kind": kind, "rule": label}, "msg": f"{label} {kw} on {case_json(i)}: {msg}",
            "case": case_json(i), "config": vkit.jsonable(kw)}


def outcome(p):
    if p.exc is not None:
        return ("EXC", type(p.exc).__name__)
    return vkit.canon_election(p.result)


def by_choices(fn):
    return {p.choices: outcome(p) for p in chooser.explore(fn, max_paths=50000)}


def dist(fn, key=outcome):
    d = {}
    for p in chooser.explore_all(fn, max_paths=50000):
        k = key(p)
        d[k] = d.get(k, F(0)) + p.prob
    return d


def compare_alias(i, label, kw, fa, fb, cnt, out, what):
    a = by_choices(fa)
    b = by_choices(fb)
    cnt["executions"] += len(a) + len(b)
    cnt["traces"] += len(a)
    cnt["transitions"] += sum(len(x) for x in a.values() if x and x[0] != "EXC")
    if len(a) > 1:
        cnt["nontrivial"] += 1
    if a != b:
        for ch in sorted(set(a) | set(b)):
            if a.get(ch) != b.get(ch):
                out["viols"].append(_viol("alias_differs", label, kw, i,
                                          f"under choice vector {list(ch)} {label} gives {vkit.jsonable(a.get(ch))} but {what} gives {vkit.jsonable(b.get(ch))}"))
                break


def shift(states, by):
    return tuple((st[0] + by,) + st[1:] for st in states)


def norm(states):
    """Drop empty groups (an empty tuple and a tuple holding one empty set both mean 'nobody')."""
    ne = lambda gs: tuple(g for g in gs if g)
    return tuple((st[0], ne(st[1]), ne(st[2]), ne(st[3]), st[4], st[5]) for st in states)


def ref_toptwo(case, tb):
    """Distribution of the TopTwo winner (or 'ValueError') by the documented composition."""
    cs = case[0]
    fp = refs.ref_fpv(case)
    t = refs.TopM(fp, 2)
    res = {}

    def add(k, p):
        res[k] = res.get(k, F(0)) + p

    def tb_score(c, tbname):
        if tbname == "borda":
            return refs.ref_borda(c)
        if tbname == "first_place":
            return refs.ref_fpv(c)
        return {x: 0 for x in c[0]}

    if t.straddles:
        if tb is None:
            return {"ValueError": F(1)}
        orders = list(refs._orders_by_score(t.tied, tb_score(case, tb)))
        pairs = {}
        for o in orders:
            adv = frozenset(t.sure | set(o[: t.need]))
            pairs[adv] = pairs.get(adv, F(0)) + F(1, len(orders))
    else:
        pairs = {frozenset(t.sure | t.tied): F(1)}
    for adv, p in pairs.items():
        red = _remove(case, set(cs) - set(adv))
        fp2 = refs.ref_fpv(red)
        a, b = sorted(adv)
        if fp2[a] != fp2[b]:
            add(a if fp2[a] > fp2[b] else b, p)
        elif tb is None:
            add("ValueError", p)
        else:
            orders = list(refs._orders_by_score(adv, tb_score(red, tb)))
            for o in orders:
                add(o[0], p / len(orders))
    return res


def run_case(i, tier):
    tag, case = _get(i)
    cs = case[0]
    n = len(cs)
    cnt = collections.Counter()
    out = {"counters": cnt, "viols": []}
    E = vkit.election_fn
    for m in range(1, n + 1):
        for tb in common.TBS:
            kw = dict(m=m, tiebreak=tb)
            compare_alias(i, "SNTV", kw, E("SNTV", case, kw), E("Plurality", case, kw), cnt, out, "Plurality")
    for q in (("droop", "hare") if tag != "weak" else ()):
        for tb in common.TBS:
            kw = dict(quota=q, tiebreak=tb)
            compare_alias(i, "IRV", kw, E("IRV", case, kw),
                          E("STV", case, dict(m=1, quota=q, tiebreak=tb, transfer="fractional")), cnt, out, "STV(m=1)")
            for m in range(1, n + 1):
                for sim in (True, False):
                    kw = dict(m=m, quota=q, simultaneous=sim, tiebreak=tb)
                    compare_alias(i, "SequentialRCV", kw, E("SequentialRCV", case, kw),
                                  E("STV", case, dict(kw, transfer="full")), cnt, out, "STV(full-weight transfer)")
    # ---- documented default arguments: a rule built from the profile alone equals the rule with its defaults spelled out ----
    from votekit import elections as VE

    def bare(cls_name):
        def fn():
            vkit.reset_steps()
            return getattr(VE, cls_name)(vkit.mk_profile(case))
        return fn

    defaults = [
        ("STV", dict(m=1, quota="droop", simultaneous=True, tiebreak=None, transfer="fractional")),
        ("SequentialRCV", dict(m=1, quota="droop", simultaneous=True, tiebreak=None)),
        ("IRV", dict(quota="droop", tiebreak=None)),
        ("Plurality", dict(m=1, tiebreak=None)), ("SNTV", dict(m=1, tiebreak=None)), ("Borda", dict(m=1, tiebreak=None)),
        ("CondoBorda", dict(m=1)),
    ]
    if n >= 2:
        defaults += [("TopTwo", dict(tiebreak=None)),
                     ("Alaska", dict(m_1=2, m_2=1, quota="droop", simultaneous=True, tiebreak=None, transfer="fractional"))]
    if tag == "weak":
        defaults = [d for d in defaults if d[0] in ("Plurality", "SNTV", "Borda", "CondoBorda", "TopTwo")]
    for rule, kw in defaults:
        compare_alias(i, rule + "(defaults)", kw, bare(rule), E(rule, case, kw), cnt, out, "the documented defaults spelled out")
    # ---- TopTwo ------------------------------------------------------------------------
    if n >= 2:
        for tb in common.TBS:
            kw = dict(tiebreak=tb)

            def key(p):
                if p.exc is not None:
                    return type(p.exc).__name__
                w = vkit.flat(p.result.get_elected())
                return w[0] if len(w) == 1 else tuple(w)

            got = dist(E("TopTwo", case, kw), key)
            exp = ref_toptwo(case, tb)
            cnt["executions"] += 1
            cnt["traces"] += 1
            if len(got) > 1:
                cnt["nontrivial"] += 1
            if got != exp:
                out["viols"].append(_viol("toptwo_composition", "TopTwo", kw, i,
                                          f"winner distribution {vkit.jsonable(got)} differs from the documented composition {vkit.jsonable(exp)}"))
    # ---- Alaska ---------------------------------------------------------------------
    for m1 in (range(1, n + 1) if tag != "weak" else ()):
        for m2 in range(1, m1 + 1):
            for q in ("droop", "hare"):
                for sim in (True, False):
                    for tb in ((None, "random") if tier == "quick" else (None, "random", "borda")):
                        for tr in (("fractional", "random") if tag == "int" else ("fractional",)):
                            kw = dict(m_1=m1, m_2=m2, quota=q, simultaneous=sim, tiebreak=tb, transfer=tr)
                            _alaska(i, case, kw, cnt, out)
    cnt["states"] += 1
    if isinstance(i, int) and i % 211 == 0:
        out["sample"] = {"profile": case_json(i), "pairs_compared": cnt["traces"]}
    return out


def _alaska(i, case, kw, cnt, out):
    m1, m2, q, sim, tb, tr = kw["m_1"], kw["m_2"], kw["quota"], kw["simultaneous"], kw["tiebreak"], kw["transfer"]
    E = vkit.election_fn

    def akey(p):
        if p.exc is not None:
            return ("EXC", type(p.exc).__name__)
        return norm(vkit.canon_election(p.result)[1:])

    got = dist(E("Alaska", case, kw), akey)
    cnt["executions"] += 1
    # composition from separately constructed real components
    exp = {}
    for p1 in chooser.explore_all(E("Plurality", case, dict(m=m1, tiebreak=tb)), max_paths=5000):
        if p1.exc is not None:
            k = ("EXC", type(p1.exc).__name__)
            exp[k] = exp.get(k, F(0)) + p1.prob
            continue
        pl = vkit.canon_election(p1.result)
        adv_groups = pl[1][2]  # elected groups of the plurality round
        out_groups = pl[1][1]  # remaining groups of the plurality round
        dropped = {c for g in out_groups for c in g}
        red = _remove(case, dropped)
        fp_red = tuple(sorted(refs.ref_fpv(red).items()))
        st1 = (1, adv_groups, ((),), out_groups if out_groups else ((),), pl[1][4], fp_red)
        for p2 in chooser.explore_all(E("STV", red, dict(m=m2, quota=q, simultaneous=sim, tiebreak=tb, transfer=tr)),
                                      max_paths=20000):
            if p2.exc is not None:
                k = ("EXC", type(p2.exc).__name__)
            else:
                k = norm((st1,) + shift(vkit.canon_election(p2.result)[1:], 1))
            exp[k] = exp.get(k, F(0)) + p1.prob * p2.prob
    cnt["traces"] += 1
    cnt["transitions"] += len(got)
    if len(got) > 1:
        cnt["nontrivial"] += 1
    if got != exp:
        only_g = [k for k in got if k not in exp]
        only_e = [k for k in exp if k not in got]
        if only_g or only_e:
            msg = (f"outcomes only in Alaska: {vkit.jsonable(only_g[:1])}; only in the composition: {vkit.jsonable(only_e[:1])}")
        else:
            k = [k for k in got if got[k] != exp[k]][0]
            msg = f"outcome {vkit.jsonable(k)} has probability {got[k]} in Alaska and {exp[k]} in the composition"
        pred = None
        out["viols"].append(_viol("alaska_composition", "Alaska", kw, i, msg))


def finalize(agg, tier):
    return {"coverage": {
        "exhaustive": True,
        "rule": "one case = one profile; every alias/composite configuration is compared with its counterpart on every RNG path; "
                "nontrivial = comparisons whose choice tree has more than one path / outcome",
        "explanation": "states = profiles; traces = (rule, configuration) comparisons; transitions = outcomes compared",
    }}

"""C18 -- cast-vote-record loading and saving keep every vote.

X4: bounded-exhaustive families of CSV tables / Scottish files written to a scratch
directory and loaded through the real loaders; reference computed from the in-memory table.
"""

from __future__ import annotations

import ast
import collections
import csv
import itertools
import os
import shutil
from fractions import Fraction

from engine import families as fam, vkit

ID = "C18"
LEVEL = "exploration"
CHUNK = 8
F = Fraction
_CASES = None
SCRATCH = os.path.join(os.path.dirname(os.path.dirname(os.path.abspath(__file__))), ".scratch")

CELLS = ("A", "B", "", "C D", "E,F", 'G"H')


def build_cases(tier, seed):
    global _CASES
    cs = []
    small = ("A", "B", "")
    mid = ("A", "", "E,F")
    # (ncols, rows)
    for r in (1, 2, 3):
        for rows in itertools.product(CELLS, repeat=r):
            cs.append(("csv", (1, tuple((c,) for c in rows))))
    for r in (1, 2):
        for rows in itertools.product(itertools.product(CELLS, repeat=2), repeat=r):
            cs.append(("csv", (2, rows)))
    for rows in itertools.product(itertools.product(mid, repeat=2), repeat=3):
        cs.append(("csv", (2, rows)))
    for r in (1, 2):
        for rows in itertools.product(itertools.product(small, repeat=3), repeat=r):
            cs.append(("csv", (3, rows)))
    if tier != "quick":
        for rows in itertools.product(itertools.product(small, repeat=2), repeat=4):
            cs.append(("csv", (2, rows)))
        for rows in itertools.product(itertools.product(("A", ""), repeat=4), repeat=2):
            cs.append(("csv", (4, rows)))
        for rows in itertools.product(itertools.product(("A", ""), repeat=6), repeat=2):
            if rows[0] <= rows[1]:
                cs.append(("csv", (6, rows)))
        for rows in itertools.product(itertools.product(("A", "B", ""), repeat=3), repeat=3):
            if rows[0] <= rows[1] <= rows[2]:  # row order is covered by the smaller tables; here one order per multiset of rows
                cs.append(("csv", (3, rows)))
    for k in ("missing", "empty", "header_only"):
        cs.append(("bad", k))
    # Scottish files
    names = ("Ann", "Bob Lee", "Cy, Jr.", "Dee")
    for n in (1, 2, 3) if tier == "quick" else (1, 2, 3, 4):
        R = fam.rank_family(n, names=("1", "2", "3", "4"))
        rows1 = [(r, m) for r in R for m in (1, 2, 10)]
        if n >= 3:
            rows1 = rows1[:: (3 if tier == "quick" else 2)]
        combos = [()] + [(a,) for a in rows1] + [(a, b) for a in rows1[::2] for b in rows1[::3]]
        if n == 4:
            combos = combos[::7]
        for combo in combos:
            for seats in (1, 2):
                cs.append(("scot", (n, seats, combo)))
    # ten and more candidates (two-digit candidate numbers)
    for n in (10, 12) if tier == "quick" else (9, 10, 11, 12, 13):
        nums = [str(k) for k in range(1, n + 1)]
        rk = lambda *xs: tuple((x,) for x in xs)
        for combo in (((rk(nums[0], nums[min(9, n - 1)], nums[1]), 2), (rk(nums[n - 1], nums[2]), 1)),
                      ((rk(*nums), 1),), ((rk(*nums[::-1]), 10), (rk(nums[1], nums[min(9, n - 1)]), 2)),
                      tuple((rk(x), 1) for x in nums)):
            cs.append(("scot", (n, 2, combo)))
    for k in ("first_row_len3", "cand_overcount", "cand_undercount", "missing", "empty"):
        cs.append(("scotbad", k))
    for c in fam.prof_list(fam.weak_family(3), 2, (1, F(3, 2)), fam.cands(3))[:: (3 if tier == "quick" else 1)]:
        cs.append(("tocsv", c))
    _CASES = cs
    meta = {
        "family": "CSV tables: 1 column x <=3 rows, 2 columns x <=2 rows over {A,B,blank,'C D','E,F','G\"H'}, 2 columns x 3 rows over {A,blank,'E,F'}, "
                  "3 columns x <=2 rows over {A,B,blank}; each x every ordered selection of rank columns (and []), id column first/middle/last "
                  "(unique/duplicated/blank ids), weight column first/last with weights {1,2,3}, delimiters {default,';',tab}; malformed files; "
                  "Scottish files with 1..3 and 10, 12 candidates (names with spaces and commas), seats 1..2, <=2 ballot rows with multiplicities {1,2,10}, "
                  "blank rows, malformed metadata; to_csv on Prof(Weak(3),2,{1,3/2}) with and without scores",
        "assumptions": ["cell values that pandas itself reinterprets (NA, null, digits) are not in the alphabet",
                        "files are written with csv.writer (minimal quoting) into /verif/.scratch and removed after each case"],
    }
    return list(range(len(cs))), meta


def _get(i):
    return _CASES[i] if isinstance(i, int) else i


def case_json(i):
    kind, c = _get(i)
    return {"kind": kind, "data": vkit.jsonable(c)}


def case_from_json(j):
    def tup(x):
        return tuple(tup(y) for y in x) if isinstance(x, list) else x

    d = tup(j["data"])
    if j["kind"] == "scot":
        n, seats, combo = d
        d = (n, seats, tuple((r, int(m)) for r, m in combo))
    if j["kind"] == "tocsv":
        raise NotImplementedError
    return (j["kind"], d)


witness_case = case_from_json


def _viol(kind, what, i, msg, cfg=None):
    return {"sig": {"kind": kind, "rule": what}, "msg": f"{what} {cfg or ''} on {case_json(i)}: {msg}",
            "case": case_json(i), "config": vkit.jsonable(cfg)}


def scratch_dir():
    d = os.path.join(SCRATCH, f"c18-{os.getpid()}")
    os.makedirs(d, exist_ok=True)
    return d


def write_csv(path, header, rows, delimiter=None):
    with open(path, "w", newline="", encoding="utf8") as f:
        w = csv.writer(f, delimiter=delimiter or ",")
        w.writerow(header)
        for r in rows:
            w.writerow(r)


def ref_table(rows, sel, ids=None, weights=None):
    """Expected {pattern: (weight, voter set)}; pattern in `sel` order, blanks as None."""
    exp = {}
    for k, row in enumerate(rows):
        pat = tuple((row[c] if row[c] != "" else None) for c in sel)
        w, vs = exp.get(pat, (0, set()))
        w += (weights[k] if weights is not None else 1)
        if ids is not None:
            vs = vs | {ids[k]}
        exp[pat] = (w, vs)
    return exp


def check_load(i, what, cfg, path, kwargs, exp, exp_exc, cnt, out):
    from votekit.cvr_loaders import load_csv

    cnt["executions"] += 1
    try:
        p = load_csv(path, **kwargs)
    except Exception as e:
        if exp_exc is None or not isinstance(e, exp_exc):
            out["viols"].append(_viol("exception", what, i, f"{type(e).__name__}: {e}"
                                      + ("" if exp_exc is None else f" (documented: {exp_exc.__name__})"), cfg))
        return
    if exp_exc is not None:
        out["viols"].append(_viol("not_rejected", what, i, f"loaded although {exp_exc.__name__} is documented", cfg))
        return
    got = {}
    for b in p.ballots:
        pat = tuple(next(iter(pos)) for pos in b.ranking)
        if any(len(pos) != 1 for pos in b.ranking) or pat in got:
            out["viols"].append(_viol("pattern", what, i, f"ballot {b.ranking} repeats a pattern or has a tied position", cfg))
            return
        got[pat] = (b.weight, set(b.voter_set) if b.voter_set else set())
    exp2 = {k: (F(w), vs) for k, (w, vs) in exp.items()}
    if got != exp2:
        out["viols"].append(_viol("ballots", what, i, f"loaded {vkit.jsonable(sorted(got.items(), key=repr))} expected "
                                  f"{vkit.jsonable(sorted(exp2.items(), key=repr))}", cfg))
        return
    if p.total_ballot_wt != sum(w for w, _ in exp2.values()):
        out["viols"].append(_viol("total", what, i, "total weight differs from the row count / weight sum", cfg))


def run_csv(i, data, cnt, out):
    from pandas.errors import DataError

    ncols, rows = data
    d = scratch_dir()
    path = os.path.join(d, "t.csv")
    nrows = len(rows)
    rnames = [f"r{k}" for k in range(ncols)]
    sels = [[]]
    for L in range(1, ncols + 1):
        for sel in itertools.permutations(range(ncols), L):
            sels.append(list(sel))
    if ncols >= 3:
        sels = [s for k, s in enumerate(sels) if k % 3 == 0 or len(s) == ncols]
    # --- default arguments, on files of different shapes loaded one after the other in the same process -----------
    other = os.path.join(d, "other.csv")
    for oc in ((1, 3) if ncols == 2 else (2, 1)):
        orows = [tuple("AB"[(k + c) % 2] for c in range(oc)) for k in range(2)]
        write_csv(other, [f"q{k}" for k in range(oc)], orows)
        check_load(i, "load_csv(defaults)", {"file": f"{oc} columns"}, other, {}, ref_table(orows, list(range(oc))), None, cnt, out)
        write_csv(path, rnames, rows)
        check_load(i, "load_csv(defaults)", {"file": f"{ncols} columns after a {oc}-column file"}, path, {},
                   ref_table(rows, list(range(ncols))), None, cnt, out)
    ids0 = [f"v{k}" for k in range(nrows)]
    write_csv(path, ["id"] + rnames, [(ids0[k],) + tuple(r) for k, r in enumerate(rows)])
    check_load(i, "load_csv(defaults)+id_col", {"id_col": 0}, path, {"id_col": 0}, ref_table(rows, list(range(ncols)), ids=ids0), None, cnt, out)
    # --- rank columns only ---------------------------------------------------------------
    for delim in (None, ";", "\t"):
        if delim is not None and (isinstance(i, int) and i % 5):
            continue
        write_csv(path, rnames, rows, delim)
        for sel in sels:
            eff = sel or list(range(ncols))
            kw = {"rank_cols": list(sel)}
            if delim:
                kw["delimiter"] = delim
            check_load(i, "load_csv", {"rank_cols": sel, "delimiter": delim}, path, kw, ref_table(rows, eff), None, cnt, out)
    # --- id column -------------------------------------------------------------------------
    idsets = [("unique", [f"v{k}" for k in range(nrows)], None)]
    if nrows >= 2:
        idsets.append(("dup", ["v0"] * nrows, DataError))
    idsets.append(("blank", [""] + [f"v{k}" for k in range(1, nrows)], ValueError))
    for pos in sorted({0, ncols // 2, ncols}):
        for idname, ids, exc in idsets:
            header = rnames[:pos] + ["id"] + rnames[pos:]
            frows = [tuple(r[:pos]) + (ids[k],) + tuple(r[pos:]) for k, r in enumerate(rows)]
            write_csv(path, header, frows)
            rank_file_cols = [c if c < pos else c + 1 for c in range(ncols)]
            for sel in ([], list(range(ncols)), list(range(ncols))[::-1], [ncols - 1]):
                kw = {"rank_cols": [rank_file_cols[c] for c in sel], "id_col": pos}
                eff = sel or list(range(ncols))
                check_load(i, "load_csv+id_col", {"id_col": pos, "rank_cols": kw["rank_cols"], "ids": idname}, path, kw,
                           ref_table(rows, eff, ids=ids), exc, cnt, out)
    # --- weight column ----------------------------------------------------------------------
    wts = [(k % 3) + 1 for k in range(nrows)]
    for pos in sorted({0, ncols}):
        header = rnames[:pos] + ["w"] + rnames[pos:]
        frows = [tuple(r[:pos]) + (wts[k],) + tuple(r[pos:]) for k, r in enumerate(rows)]
        write_csv(path, header, frows)
        rank_file_cols = [c if c < pos else c + 1 for c in range(ncols)]
        for sel in (list(range(ncols)), list(range(ncols))[::-1], [0]):
            kw = {"rank_cols": [rank_file_cols[c] for c in sel], "weight_col": pos}
            check_load(i, "load_csv+weight_col", {"weight_col": pos, "rank_cols": kw["rank_cols"]}, path, kw,
                       ref_table(rows, sel, weights=wts), None, cnt, out)
    # --- id and weight together ---------------------------------------------------------------
    ids = [f"v{k}" for k in range(nrows)]
    header = ["id"] + rnames + ["w"]
    frows = [(ids[k],) + tuple(r) + (wts[k],) for k, r in enumerate(rows)]
    write_csv(path, header, frows)
    kw = {"rank_cols": list(range(1, ncols + 1)), "id_col": 0, "weight_col": ncols + 1}
    check_load(i, "load_csv+id_col+weight_col", {"id_col": 0, "weight_col": ncols + 1}, path, kw,
               ref_table(rows, list(range(ncols)), ids=ids, weights=wts), None, cnt, out)
    if len(set(rows)) < len(rows) or any("" in r for r in rows):
        cnt["nontrivial"] += 1


def run_bad(i, kind, cnt, out):
    from pandas.errors import EmptyDataError

    d = scratch_dir()
    path = os.path.join(d, "bad.csv")
    if kind == "missing":
        path = os.path.join(d, "does-not-exist.csv")
        exc = FileNotFoundError
    elif kind == "empty":
        open(path, "w").close()
        exc = EmptyDataError
    else:
        write_csv(path, ["r0", "r1"], [])
        exc = EmptyDataError
    check_load(i, "load_csv", {"malformed": kind}, path, {}, {}, exc, cnt, out)
    cnt["nontrivial"] += 1


NAMES = ("Ann", "Bob Lee", "Cy, Jr.", "Dee") + tuple(f"Cand {chr(69 + k)}" for k in range(9))
PARTIES = ("Orange (O)", "Q", "R, S", "T") + tuple(f"P{k}" for k in range(9))


def write_scot(path, n, seats, combo, blank_rows=False, first_row=None, ncand_rows=None, declared=None):
    with open(path, "w", newline="", encoding="utf8") as f:
        w = csv.writer(f)
        w.writerow(first_row if first_row is not None else [declared if declared is not None else n, seats, ""])
        for r, m in combo:
            if blank_rows:
                w.writerow(["", "", ""])
            w.writerow([m] + [p[0] for p in r] + [""])
        if blank_rows:
            f.write("\n")
        for k in range(ncand_rows if ncand_rows is not None else n):
            w.writerow([f"Candidate {k + 1}", NAMES[k], PARTIES[k], ""])
        w.writerow(["Ward 1 North", ""])


def run_scot(i, data, cnt, out):
    from votekit.cvr_loaders import load_scottish

    n, seats, combo = data
    d = scratch_dir()
    path = os.path.join(d, "s.csv")
    exp = {}
    for r, m in combo:
        key = tuple((NAMES[int(p[0]) - 1],) for p in r)
        exp[key] = exp.get(key, F(0)) + m
    for blank in (False, True):
        write_scot(path, n, seats, combo, blank_rows=blank)
        cnt["executions"] += 1
        try:
            prof, s, cl, c2p, ward = load_scottish(path)
        except Exception as e:
            out["viols"].append(_viol("exception", "load_scottish", i, f"{type(e).__name__}: {e}", {"blank_rows": blank}))
            continue
        got = {}
        for b in prof.ballots:
            k = vkit.canon_ranking(b.ranking)
            got[k] = got.get(k, F(0)) + b.weight
        msg = None
        if got != exp:
            msg = f"ballots {vkit.jsonable(sorted(got.items()))} expected {vkit.jsonable(sorted(exp.items()))}"
        elif s != seats or list(cl) != list(NAMES[:n]) or c2p != dict(zip(NAMES[:n], PARTIES[:n])) or ward != "Ward 1 North":
            msg = f"metadata seats={s} cands={cl} parties={c2p} ward={ward!r}"
        elif tuple(prof.candidates) != tuple(NAMES[:n]):
            msg = f"profile candidates {prof.candidates}"
        if msg:
            out["viols"].append(_viol("content", "load_scottish", i, msg, {"blank_rows": blank}))
    if len(combo) == 2 and combo[0][0] == combo[1][0]:
        cnt["nontrivial"] += 1
    elif combo:
        cnt["nontrivial"] += 1


def run_scotbad(i, kind, cnt, out):
    from votekit.cvr_loaders import load_scottish
    from pandas.errors import EmptyDataError, DataError

    d = scratch_dir()
    path = os.path.join(d, "sb.csv")
    combo = (((("1",), ("2",)), 3),)
    if kind == "first_row_len3":
        write_scot(path, 2, 1, combo, first_row=[2, 1, 5])
        exc = DataError
    elif kind == "cand_overcount":
        write_scot(path, 2, 1, combo, declared=3)
        exc = DataError
    elif kind == "cand_undercount":
        write_scot(path, 2, 1, combo, declared=1)
        exc = DataError
    elif kind == "missing":
        path = os.path.join(d, "nope.csv")
        exc = FileNotFoundError
    else:
        open(path, "w").close()
        exc = EmptyDataError
    cnt["executions"] += 1
    cnt["nontrivial"] += 1
    try:
        load_scottish(path)
        out["viols"].append(_viol("not_rejected", "load_scottish", i, f"{kind}: loaded although {exc.__name__} is documented"))
    except Exception as e:
        if not isinstance(e, exc):
            out["viols"].append(_viol("exception", "load_scottish", i, f"{kind}: {type(e).__name__}: {e} (documented: {exc.__name__})"))


def run_tocsv(i, case, cnt, out):
    from votekit.ballot import Ballot
    from votekit.pref_profile import PreferenceProfile

    cs, bl = case
    d = scratch_dir()
    path = os.path.join(d, "out.csv")
    for with_scores in (False, True):
        ballots = []
        for k, (r, w) in enumerate(bl):
            sc = {cs[0]: F(1, 2), cs[2]: 2} if (with_scores and k == 0) else None
            ballots.append(vkit.mk_ballot(r, w, sc))
        if with_scores:
            ballots.append(Ballot(scores={cs[1]: 1}, weight=F(5, 2)))
        p = PreferenceProfile(ballots=tuple(ballots), candidates=cs)
        cnt["executions"] += 1
        try:
            p.to_csv(path)
            with open(path, newline="") as f:
                rows = list(csv.reader(f))
        except Exception as e:
            out["viols"].append(_viol("exception", "to_csv", i, f"{type(e).__name__}: {e}"))
            continue
        msg = None
        if rows[0] != ["weight", "ranking", "scores"] or len(rows) != len(ballots) + 1:
            msg = f"header {rows[0]} / {len(rows) - 1} rows for {len(ballots)} ballots"
        else:
            for b, row in zip(ballots, rows[1:]):
                try:
                    w = float(row[0])
                    rk = ast.literal_eval(row[1])
                    sc = ast.literal_eval(row[2])
                except Exception as e:
                    msg = f"row {row} cannot be parsed: {e}"
                    break
                exp_r = tuple(set(s) for s in b.ranking) if b.ranking else ()
                exp_s = tuple((c, float(v)) for c, v in b.scores.items()) if b.scores else ()
                if w != float(b.weight) or tuple(rk) != exp_r or tuple(sc) != exp_s:
                    msg = f"row {row} does not describe ballot {b.ranking} w={b.weight} scores={b.scores}"
                    break
        if msg:
            out["viols"].append(_viol("content", "to_csv", i, msg))
    cnt["nontrivial"] += 1


def run_case(i, tier):
    kind, c = _get(i)
    cnt = collections.Counter()
    out = {"counters": cnt, "viols": []}
    try:
        {"csv": run_csv, "bad": run_bad, "scot": run_scot, "scotbad": run_scotbad, "tocsv": run_tocsv}[kind](i, c, cnt, out)
    finally:
        shutil.rmtree(scratch_dir(), ignore_errors=True)
    seen = set()
    keep = []
    for v in out["viols"]:
        k = (v["sig"]["kind"], v["sig"]["rule"])
        if k not in seen:
            seen.add(k)
            keep.append(v)
    out["viols"] = keep
    cnt["states"] += 1
    if isinstance(i, int) and i % 997 == 0:
        out["sample"] = case_json(i)
    return out


def finalize(agg, tier):
    return {"coverage": {
        "exhaustive": True,
        "rule": "one case = one table / file / profile, loaded under every column selection, id/weight column placement and delimiter of the menu; "
                "nontrivial = tables with a repeated row or a blank cell, non-empty Scottish files, malformed files, to_csv profiles",
    }}

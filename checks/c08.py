"""C08 -- outcomes are neutral, anonymous and independent of representation and hash seed.

Model checking of a configuration space with a differential oracle: every base case is run
under *all* transformations of a stated finite group (candidate bijections onto three name
sets, ballot orders, weight splittings, candidate-tuple orders) and under a covering set of
PYTHONHASHSEED values (one subprocess per seed); the canonical round records must coincide.
"""

from __future__ import annotations

import collections
import hashlib
import itertools
import json
import os
import subprocess
import sys
from fractions import Fraction

from engine import chooser, families as fam, refs, vkit
from . import common, c01, c09

ID = "C08"
LEVEL = "model_checking"
CHUNK = 2
F = Fraction
_CASES = None
_SEEDDIGESTS = None
_SEEDS = None

NAME_SETS = (("A", "B", "C"), ("b", "Zed", "c1"), ("10", "1", "x1"))  # the third set has names contained in one another
KNOWN_COVER = (0, 6, 10, 12, 45, 104)
VERIF = os.path.dirname(os.path.dirname(os.path.abspath(__file__)))


def base_cases(tier):
    cs = []
    rp = fam.prof_list(fam.rank_family(3), 2, (1, 2), fam.cands(3))
    wk = common.weak_profiles("quick")
    if tier == "quick":
        rp = rp[:30] + rp[30::4]
        wk = wk[::12]
    else:
        wk = wk[::2]
    for c in rp:
        cs.append(("rank", "int", c))
    big = fam.prof_list(fam.rank_family(3), 2, (1400003, 999983), fam.cands(3))
    # two ballot types led by the same candidate: its surplus is split between them with transfer values whose
    # denominators exceed 10**6 (weight splitting must still commute with the transfer)
    same_first = [c for c in big if len(c[1]) == 2 and c[1][0][0][0] == c[1][1][0][0]
                  and len(c[1][0][0]) > 1 and len(c[1][1][0]) > 1 and c[1][0][0][1] != c[1][1][0][1]]
    if tier == "quick":
        same_first = [c for c in same_first if c[1][0][1] != c[1][1][1]][::2]
    for c in (big[30::16] + same_first if tier == "quick" else big[::3] + same_first):
        cs.append(("rank", "rat", c))
    for c in wk:
        cs.append(("weak", "int", c))
    # decimal weights whose float sums depend on the order of addition (0.1 + 0.2 + 0.3): three ballots for one candidate
    a, b, c_ = fam.cands(3)
    tenth = (F(1, 10), F(1, 5), F(3, 10))
    trip = [((a,),), ((a,), (b,)), ((a,), (c_,))]
    for ws in (tenth, (tenth[2], tenth[0], tenth[1])):
        cs.append(("dec", "rat", (fam.cands(3), tuple(zip(trip, ws)))))
        cs.append(("dec", "rat", (fam.cands(3), tuple(zip(trip, ws)) + ((((b,), (a,)), F(3, 5)),))))
    return cs


def build_cases(tier, seed):
    global _CASES, _SEEDDIGESTS, _SEEDS
    _CASES = base_cases(tier)
    meta = {
        "family": ("quick: 30 single-type + every 4th two-type profile of " if tier == "quick" else "") + "Prof(Rank(3),2,{1,2}), a slice of Prof(Rank(3),2,{1400003,999983}) and a slice of "
                  "Prof(Weak(3),2,{1,2}), four profiles with weights (1/10,1/5,3/10) on one candidate x one deterministic configuration per code path of every non-random rule + scoring utilities (exact and to_float=True) + "
                  "PairwiseComparisonGraph; transformations (all of them per base case): 3! bijections onto each of the name sets "
                  f"{NAME_SETS}, all ballot orders, splits of each ballot weight (w/2+w/2, w/4+3w/4), all 3! candidate-tuple orders; "
                  "PYTHONHASHSEED over a covering set (every iteration order of each name set and of each 2-subset occurs)",
        "assumptions": ["only deterministic runs are compared (no choice point of arity > 1 consumed); a transformation that changes whether a run "
                        "is deterministic is itself reported",
                        "hash seeds: a constructed finite covering set, re-verified at run time, plus two seeds derived from VERIF_SEED"],
    }
    if os.environ.get("VK_C08_WORKER"):
        return list(range(len(_CASES))), meta
    # ---- hash-seed dimension: one worker process per seed ------------------------------------
    seeds = find_covering_seeds()
    extra = [1000 + (seed * 7919) % 9000, 20000 + (seed * 104729) % 9000]
    seeds = list(dict.fromkeys(list(seeds) + extra))
    _SEEDS = seeds
    procs = []
    outdir = os.path.join(VERIF, ".scratch")
    os.makedirs(outdir, exist_ok=True)
    for s in seeds:
        outp = os.path.join(outdir, f"c08-digest-{os.getpid()}-{s}.json")
        env = dict(os.environ, VK_HASHSEED=str(s), VK_C08_WORKER=outp, VERIF_TIER=tier)
        procs.append((s, outp, subprocess.Popen([os.path.join(VERIF, "vk"), "check", "C08", "--tier", tier, "--jobs", "2"],
                                                env=env, stdout=subprocess.DEVNULL, stderr=subprocess.PIPE)))
    _SEEDDIGESTS = procs
    meta["coverage"] = {"hash_seeds": seeds}
    return list(range(len(_CASES))), meta


def find_covering_seeds():
    """Seeds such that tuple(set(names)) takes all 3! orders and tuple(set(pair)) both orders, for every name set."""
    code = ("import sys,itertools,json;NS=%r;"
            "print(json.dumps([[list(set(ns)) for ns in NS],[[list(set(p)) for p in itertools.combinations(ns,2)] for ns in NS]]))" % (NAME_SETS,))

    def orders(seedlist):
        res = {}
        ps = [(s, subprocess.Popen(["/venv/bin/python", "-c", code], env=dict(os.environ, PYTHONHASHSEED=str(s)),
                                   stdout=subprocess.PIPE)) for s in seedlist]
        for s, p in ps:
            res[s] = json.loads(p.communicate()[0])
        return res

    need = set()
    for k, ns in enumerate(NAME_SETS):
        for perm in itertools.permutations(ns):
            need.add(("t", k, perm))
        for j, pair in enumerate(itertools.combinations(ns, 2)):
            need.add(("p", k, j, pair))
            need.add(("p", k, j, pair[::-1]))

    def covered_by(res):
        got = {}
        for s, (triples, pairs) in res.items():
            for k, t in enumerate(triples):
                got.setdefault(("t", k, tuple(t)), s)
            for k, pl in enumerate(pairs):
                for j, p in enumerate(pl):
                    got.setdefault(("p", k, j, tuple(p)), s)
        return got

    res = orders(KNOWN_COVER)
    got = covered_by(res)
    if need <= set(got):
        return list(KNOWN_COVER)
    chosen = list(KNOWN_COVER)
    for lo in range(0, 2000, 64):
        res.update(orders([s for s in range(lo, lo + 64) if s not in res]))
        got = covered_by(res)
        if need <= set(got):
            break
    if not need <= set(got):
        raise chooser.ReplayDivergence("no covering set of hash seeds found among 0..2047")
    return sorted({got[k] for k in need})


def _get(i):
    return _CASES[i] if isinstance(i, int) else i


def case_json(i):
    return c01.case_json(_get(i))


def case_from_json(j):
    return c01.case_from_json(j)


witness_case = case_from_json


def mapped_states(e, inv):
    def g(groups):
        return tuple(tuple(sorted(inv[c] for c in s)) for s in groups)

    out = []
    for s in e.election_states:
        out.append((s.round_number, g(s.remaining), g(s.elected), g(s.eliminated),
                    tuple(sorted((tuple(sorted(inv[c] for c in k)), g(v)) for k, v in s.tiebreaks.items())),
                    tuple(sorted((inv[c], v) for c, v in s.scores.items()))))
    return tuple(out)


def outcome(fn, inv):
    p = chooser.run_once(fn)
    if p.branching > 0:
        return ("RANDOM",)
    if p.exc is not None:
        return ("EXC", type(p.exc).__name__)
    return mapped_states(p.result, inv)


def utilities(case, inv):
    from votekit import utils as U
    from votekit.graphs import PairwiseComparisonGraph as PCG

    prof = vkit.mk_profile(case)
    res = []
    for fn in (U.first_place_votes, U.borda_scores, U.mentions, lambda p: U.score_profile_from_rankings(p, [3, F(1, 2)]),
               lambda p: U.first_place_votes(p, to_float=True), lambda p: U.borda_scores(p, to_float=True),
               lambda p: U.mentions(p, to_float=True), lambda p: U.score_profile_from_rankings(p, [3, 0.5], to_float=True)):
        try:
            d = fn(prof)
            res.append(tuple(sorted((inv[c], v) for c, v in d.items())))
        except Exception as e:
            res.append(("EXC", type(e).__name__))
    if True:
        try:
            g = PCG(prof)
            res.append(tuple(sorted(((inv[a], inv[b]), v) for (a, b), v in g.pairwise_dict.items())))
            res.append(tuple(tuple(sorted(inv[c] for c in t)) for t in g.dominating_tiers()))
        except Exception as e:
            res.append(("EXC", type(e).__name__))
        finally:
            PCG.dominating_tiers.cache_clear()
    return tuple(res)


def rename(case, mp):
    cs, bl = case
    return (tuple(mp[c] for c in cs), tuple((tuple(tuple(mp[c] for c in p) for p in r), w) for r, w in bl))


def variants(case):
    """All transformed copies of `case` with the inverse name map: (description, case', inv)."""
    cs, bl = case
    ident = {c: c for c in cs}
    for ns in NAME_SETS:
        for perm in itertools.permutations(ns):
            mp = dict(zip(cs, perm))
            if mp == ident:
                continue
            yield (f"rename {mp}", rename(case, mp), {v: k for k, v in mp.items()})
    for perm in itertools.permutations(bl):
        if perm != bl:
            yield ("ballot order", (cs, perm), ident)
    for k, (r, w) in enumerate(bl):
        for a, b in ((F(w) / 2, F(w) / 2), (F(w) / 4, F(w) * 3 / 4)):
            yield (f"split ballot {k} into {a}+{b}", (cs, bl[:k] + ((r, a), (r, b)) + bl[k + 1:]), ident)
            yield (f"split ballot {k} into {a}+{b}, parts separated", (cs, ((r, a),) + bl[:k] + bl[k + 1:] + ((r, b),)), ident)
    for perm in itertools.permutations(cs):
        if perm != cs:
            yield (f"candidates tuple {perm}", (perm, bl), ident)


def run_case(i, tier):
    kind, tag, case = _get(i)
    cs = case[0]
    cnt = collections.Counter()
    out = {"counters": cnt, "viols": []}
    ident = {c: c for c in cs}
    menu = [x for x in c09.quick_menu(kind, tag, case, "quick")
            if x[0] not in ("RandomDictator", "BoostedRandomDictator", "PluralityVeto")]
    worker = os.environ.get("VK_C08_WORKER")
    base = {}
    for (label, vrule, kw, exp_m, spec) in menu:
        base[(label, json.dumps(kw, sort_keys=True, default=str))] = outcome(vkit.election_fn(vrule, case, kw), ident)
        cnt["executions"] += 1
    ubase = utilities(case, ident)
    if worker:
        h = hashlib.sha1(repr((sorted(base.items()), ubase)).encode()).hexdigest()
        out["sets"] = {"digests": {(i, h)}}
        cnt["states"] += 1
        return out
    cnt["states"] += 1
    cnt["deterministic_base_runs"] += sum(1 for v in base.values() if v and v[0] not in ("RANDOM", "EXC"))
    nvar = 0
    for desc, vcase, inv in variants(case):
        nvar += 1
        cnt["states"] += 1
        for (label, vrule, kw, exp_m, spec) in menu:
            key = (label, json.dumps(kw, sort_keys=True, default=str))
            b = base[key]
            if "split" in desc and vrule == "PluralityVeto":
                continue
            o = outcome(vkit.election_fn(vrule, vcase, kw), inv)
            cnt["executions"] += 1
            cnt["transitions"] += 1
            if o == b:
                continue
            if b[0] == "RANDOM" and o[0] == "RANDOM":
                continue
            if (b[0] == "RANDOM") != (o[0] == "RANDOM"):
                msg = f"the run is {'random' if o[0] == 'RANDOM' else 'deterministic'} after the transformation but was not before"
                kindv = "determinism_changed"
            else:
                msg = f"outcome {vkit.jsonable(o)[:3] if isinstance(o, tuple) else o} differs from the untransformed outcome {vkit.jsonable(b)[:3]}"
                kindv = "outcome_changed"
            out["viols"].append({"sig": {"kind": kindv, "rule": label, "transformation": desc.split(" ")[0]},
                                 "msg": f"{label} {kw} on {case_json(i)} under '{desc}': {msg}", "case": case_json(i),
                                 "config": vkit.jsonable(kw), "transformation": desc})
        u = utilities(vcase, inv)
        cnt["executions"] += 1
        if u != ubase:
            out["viols"].append({"sig": {"kind": "utility_changed", "rule": "utils/pairwise", "transformation": desc.split(" ")[0]},
                                 "msg": f"scoring utilities / pairwise graph on {case_json(i)} change under '{desc}': {vkit.jsonable(u)} vs {vkit.jsonable(ubase)}",
                                 "case": case_json(i), "transformation": desc})
    cnt["traces"] += nvar
    cnt["nontrivial"] += 1
    h = hashlib.sha1(repr((sorted(base.items()), ubase)).encode()).hexdigest()
    out["sets"] = {"digests": {(i, h)}}
    # keep one violation per signature per case
    seen = set()
    keep = []
    for v in out["viols"]:
        k = json.dumps(v["sig"], sort_keys=True)
        if k not in seen:
            seen.add(k)
            keep.append(v)
    out["viols"] = keep
    if isinstance(i, int) and i % 97 == 0:
        out["sample"] = {"case": case_json(i), "variants": nvar, "configurations": len(menu)}
    return out


def finalize(agg, tier):
    worker = os.environ.get("VK_C08_WORKER")
    mine = dict(agg["sets"].get("digests", set()))
    if worker:
        with open(worker, "w") as f:
            json.dump({str(k): v for k, v in mine.items()}, f)
        return {"coverage": {"exhaustive": True, "rule": "hash-seed worker"}}
    viols = []
    nseeds = 0
    for s, outp, proc in _SEEDDIGESTS or []:
        err = proc.communicate()[1]
        if proc.returncode != 0 or not os.path.exists(outp):
            raise chooser.ReplayDivergence(f"hash-seed worker {s} failed (exit {proc.returncode}): {err[-600:] if err else ''}")
        with open(outp) as f:
            d = json.load(f)
        os.remove(outp)
        nseeds += 1
        for k, h in mine.items():
            if d.get(str(k)) != h:
                viols.append({"sig": {"kind": "hash_seed_dependent", "rule": "any"},
                              "msg": f"canonical outcomes of base case {case_json(k)} under PYTHONHASHSEED={s} differ from those under seed "
                                     f"{os.environ.get('PYTHONHASHSEED')}", "case": case_json(k), "hash_seed": s})
                break
    agg["counters"]["hash_seed_runs"] = nseeds * len(mine)
    return {"viols": viols, "coverage": {
        "exhaustive": True,
        "hash_seed_workers": nseeds,
        "rule": "one case = one base profile x configuration menu x every transformation of the group; nontrivial = base cases (each has "
                "at least 20 distinct transformed copies); hash seeds: every base case digest compared across all worker processes",
        "explanation": "states = base and transformed profiles; transitions = (transformed run, base run) comparisons; traces = transformed "
                       "copies fully compared",
    }}

"""C12 -- ballot-editing utilities preserve order and lose no votes except exhausted ones.

X4: bounded-exhaustive inputs in all three shapes x all removal sets x flags, against a
per-ballot reference (positions filtered, order and grouping kept).
"""

from __future__ import annotations

import collections
import itertools
import math
from fractions import Fraction

from engine import families as fam, refs, vkit

ID = "C12"
LEVEL = "exploration"
CHUNK = 16
F = Fraction
_CASES = None


def build_cases(tier, seed):
    global _CASES
    c3 = fam.cands(3)
    W3 = fam.weak_family(3)
    cs = []
    profs = fam.prof_list(W3, 2, (1, 2, F(1, 2)), c3) if tier != "quick" else fam.prof_list(W3, 2, (1, F(1, 2)), c3)
    for c in profs:
        cs.append(("remove", c))
    for r in W3:
        cs.append(("single", (c3, r, None)))
        cs.append(("single", (c3, r, ((c3[0], 1), (c3[2], 2)))))
    cs.append(("single", (c3, None, ((c3[0], 1), (c3[1], F(1, 2))))))
    for r in fam.weak_family(4):
        cs.append(("single", (fam.cands(4), r, None)))
    # ballots that list a candidate more than once (as loaders can produce them)
    reps = [tuple((x,) for x in s) for L in (2, 3) for s in itertools.product(c3, repeat=L) if len(set(s)) < L]
    a_, b_, c_ = c3
    reps += [((a_, b_), (a_,)), ((a_,), (a_, b_)), ((a_, b_), (b_, c_)), ((c_,), (a_, b_), (c_,))]
    for r in reps:
        cs.append(("single", (c3, r, None)))
    # candidate names contained in one another (a str argument must not be matched as a substring)
    sub = ("W1", "W10", "W")
    for r in fam.weak_family(3, names=sub)[::2]:
        cs.append(("single", (sub, r, None)))
    for c in fam.prof_list(fam.rank_family(3, names=sub), 2, (1,), sub)[::5]:
        cs.append(("remove", c))
    for a, b in itertools.product(reps[::2], fam.rank_family(3)[::2] + reps[1::3]):
        cs.append(("remove", (c3, ((a, 1), (b, F(1, 2))))))
    for r in W3 + (fam.weak_family(4) if tier != "quick" else fam.weak_family(4)[::3]):
        cs.append(("expand", r))
    for c in fam.prof_list(W3, 2, (1, F(3, 2)), c3):
        cs.append(("addres", c))
    # uncondensed profiles: a ranking repeated on another ballot with a different weight (profiles are not merged first)
    for k, (cands_, bl) in enumerate(fam.prof_list(W3, 2, (1, F(3, 2)), c3)):
        if k % (2 if tier == "quick" else 1) == 0:
            cs.append(("addres", (cands_, bl + ((bl[0][0], 5),))))
            cs.append(("addres", (cands_, ((bl[-1][0], F(1, 3)),) + bl)))
        if k % (4 if tier == "quick" else 2) == 0:
            cs.append(("remove", (cands_, bl + ((bl[0][0], 5),))))
    # cleaning module: untied ballots with repetitions and blanks as the loaders produce them
    alpha = c3 + (None,)
    seqs = [s for L in range(1, 4) for s in itertools.product(alpha, repeat=L)]
    maxb = 2 if tier == "quick" else 3
    for L in range(1, maxb + 1):
        pool = seqs if L == 1 else (seqs[::3] if L == 2 else seqs[::9])
        for combo in itertools.product(pool, repeat=L):
            cs.append(("clean", combo))
    _CASES = cs
    meta = {
        "family": "remove_cand: ballots listing a candidate twice (all sequences of length 2..3 over {A,B,C} with a repeat, tied positions with a repeat) "
                  "alone and paired with other ballots; Prof(Weak(3),2,W) as profile / ballot tuple x every subset of {A,B,C,Z} (as list, singletons also as str) x condense x "
                  "leave_zero_weight_ballots; every single ballot of Weak(3) (with and without scores) and Weak(4); expand_tied_ballot on Weak(3)/Weak(4); "
                  "add_missing_cands / resolve_profile_ties on Prof(Weak(3),2,{1,3/2}) and on uncondensed variants (a ranking repeated on another ballot with weight 5 or 1/3); cleaning functions on ballots over {A,B,C,blank} of length <= 3 "
                  "with repetitions, profiles of up to 2 (quick) / 3 such ballots in every order",
        "assumptions": ["cleaning-module functions are judged on whole positions (they operate on positions, as documented in the property)",
                        "a helper that does not merge non-adjacent equal ballots is not penalised: weights are summed per resulting ranking"],
    }
    return list(range(len(cs))), meta


def _get(i):
    return _CASES[i] if isinstance(i, int) else i


def case_json(i):
    kind, c = _get(i)
    return {"kind": kind, "data": vkit.jsonable(c)}


def case_from_json(j):
    def tup(x):
        if isinstance(x, list):
            return tuple(tup(y) for y in x)
        if isinstance(x, str) and ("/" in x or x.lstrip("-").isdigit()):
            try:
                return fam._num(x)
            except Exception:
                return x
        return x

    return (j["kind"], tup(j["data"]))


witness_case = case_from_json


def _viol(kind, what, i, msg, cfg=None):
    return {"sig": {"kind": kind, "rule": what}, "msg": f"{what} {cfg or ''} on {case_json(i)}: {msg}",
            "case": case_json(i), "config": vkit.jsonable(cfg)}


def ref_remove_ballot(r, sc, removed):
    r2 = None
    if r:
        r2 = tuple(tuple(sorted(c for c in p if c not in removed)) for p in r)
        r2 = tuple(p for p in r2 if p) or None
    sc2 = None
    if sc:
        sc2 = tuple(sorted((c, F(v)) for c, v in sc if c not in removed and v != 0)) or None
    return r2, sc2


def content(b):
    return (vkit.canon_ranking(b.ranking) if b.ranking else None,
            tuple(sorted(b.scores.items())) if b.scores else None)


def subsets(cs):
    xs = list(cs) + ["Z"]
    for r in range(0, len(xs) + 1):
        for s in itertools.combinations(xs, r):
            yield list(s)


def check_removed(what, i, cfg, inputs, removed, result_ballots, out, allow_zero):
    """inputs: [(ranking, scores, weight)], result_ballots: votekit ballots."""
    exp = {}
    lost = F(0)
    for r, sc, w in inputs:
        k = ref_remove_ballot(r, sc, removed)
        if k == (None, None):
            lost += F(w)
            continue
        exp[k] = exp.get(k, F(0)) + F(w)
    got = {}
    for b in result_ballots:
        k = content(b)
        if k == (None, None):
            if b.weight != 0 and not allow_zero:
                out["viols"].append(_viol("empty_ballot", what, i, f"empty ballot of weight {b.weight} in the result", cfg))
                return False
            if b.weight != 0:
                out["viols"].append(_viol("empty_ballot", what, i, f"an exhausted ballot kept weight {b.weight}", cfg))
                return False
            continue
        if any(c in removed for p in (k[0] or ()) for c in p) or any(c in removed for c, _ in (k[1] or ())):
            out["viols"].append(_viol("removed_appears", what, i, f"removed candidate appears in {k}", cfg))
            return False
        got[k] = got.get(k, F(0)) + b.weight
    if got != exp:
        out["viols"].append(_viol("weights", what, i,
                                  f"result {vkit.jsonable(sorted(got.items(), key=repr))} != expected {vkit.jsonable(sorted(exp.items(), key=repr))}"
                                  f" (weight of exhausted ballots: {lost})", cfg))
        return False
    return True


def run_remove(i, case, cnt, out):
    from votekit.utils import remove_cand

    cs, bl = case
    prof = vkit.mk_profile(case)
    inputs = [(r, None, w) for r, w in bl]
    for removed in subsets(cs):
        variants = [removed]
        if len(removed) == 1:
            variants.append(removed[0])
        for rem in variants:
            for condense in (True, False):
                for lz in (False, True):
                    cfg = {"removed": rem, "condense": condense, "leave_zero_weight_ballots": lz}
                    for shape in ("profile", "tuple"):
                        cnt["executions"] += 1
                        try:
                            res = remove_cand(rem, prof if shape == "profile" else prof.ballots, condense, lz)
                        except Exception as e:
                            out["viols"].append(_viol("exception", "remove_cand/" + shape, i, f"{type(e).__name__}: {e}", cfg))
                            continue
                        rb = res.ballots if shape == "profile" else res
                        if not check_removed("remove_cand/" + shape, i, cfg, inputs, set(removed), rb, out, lz):
                            continue
                        if shape == "profile":
                            expc = tuple(c for c in cs if c not in removed)
                            if tuple(res.candidates) != expc:
                                out["viols"].append(_viol("candidates", "remove_cand/profile", i,
                                                          f"candidates {res.candidates} != original minus removed {expc}", cfg))
                        if condense:
                            ks = [content(b) for b in rb]
                            if len(set(ks)) != len(ks):
                                out["viols"].append(_viol("not_condensed", "remove_cand/" + shape, i, "condense=True left equal ballots unmerged", cfg))
    # default arguments (condense=True, leave_zero_weight_ballots=False) must behave as when spelled out
    for rem in (list(cs[:1]), cs[0]):
        try:
            a = remove_cand(rem, prof)
            b = remove_cand(rem, prof, True, False)
            if vkit.canon_profile(a) != vkit.canon_profile(b) or tuple(a.candidates) != tuple(b.candidates):
                out["viols"].append(_viol("defaults", "remove_cand/profile", i, "default arguments differ from condense=True, leave_zero_weight_ballots=False"))
        except Exception as e:
            out["viols"].append(_viol("exception", "remove_cand/profile", i, f"{type(e).__name__}: {e}", {"removed": rem, "defaults": True}))
    cnt["nontrivial"] += 1


def run_single(i, data, cnt, out):
    from votekit.utils import remove_cand

    cs, r, sc = data
    b = vkit.mk_ballot(r, F(3, 2), dict(sc) if sc else None)
    inputs = [(r, sc, F(3, 2))]
    for removed in subsets(cs):
        for condense in (True, False):
            for lz in (False, True):
                cfg = {"removed": removed, "condense": condense, "leave_zero_weight_ballots": lz}
                cnt["executions"] += 1
                try:
                    res = remove_cand(removed, b, condense, lz)
                except Exception as e:
                    out["viols"].append(_viol("exception", "remove_cand/ballot", i, f"{type(e).__name__}: {e}", cfg))
                    continue
                from votekit.ballot import Ballot

                if not isinstance(res, Ballot):
                    out["viols"].append(_viol("type", "remove_cand/ballot", i, f"returned {type(res).__name__}", cfg))
                    continue
                check_removed("remove_cand/ballot", i, cfg, inputs, set(removed), [res], out, True)
    cnt["nontrivial"] += 1


def linear_extensions(r):
    parts = [list(itertools.permutations(p)) for p in r]
    for combo in itertools.product(*parts):
        yield tuple((c,) for part in combo for c in part)


def run_expand(i, r, cnt, out):
    from votekit.utils import expand_tied_ballot

    exp = list(linear_extensions(r))
    denom = 1
    for p in r:
        denom *= math.factorial(len(p))
    # weights: a small rational, one whose equal shares need a denominator above 10**6, one beyond double precision
    for w in (F(5, 3), F(2, 400009), F(2**53 + 1)):
        b = vkit.mk_ballot(r, w)
        cnt["executions"] += 1
        try:
            res = expand_tied_ballot(b)
        except Exception as e:
            out["viols"].append(_viol("exception", "expand_tied_ballot", i, f"{type(e).__name__}: {e}"))
            return
        got = [(vkit.canon_ranking(x.ranking), x.weight) for x in res]
        if sorted(g[0] for g in got) != sorted(exp):
            out["viols"].append(_viol("extensions", "expand_tied_ballot", i,
                                      f"returned rankings {sorted(g[0] for g in got)} are not exactly the linear orders {sorted(exp)}, each once"))
            return
        if any(g[1] != w / denom for g in got) or sum(g[1] for g in got) != w:
            out["viols"].append(_viol("weights", "expand_tied_ballot", i, f"weight {w}: shares {[str(g[1]) for g in got]} are not {w}/{denom} each"))
            return
    if denom > 1:
        cnt["nontrivial"] += 1


def run_addres(i, case, cnt, out):
    from votekit.utils import add_missing_cands, resolve_profile_ties

    cs, bl = case
    prof = vkit.mk_profile(case)
    cnt["executions"] += 2
    try:
        res = add_missing_cands(prof)
        exp = {}
        for r, w in bl:
            listed = {c for p in r for c in p}
            miss = tuple(sorted(c for c in cs if c not in listed))
            r2 = tuple(tuple(sorted(p)) for p in r) + ((miss,) if miss else ())
            exp[r2] = exp.get(r2, F(0)) + F(w)
        got = {}
        for b in res.ballots:
            k = vkit.canon_ranking(b.ranking)
            got[k] = got.get(k, F(0)) + b.weight
        if got != exp or sorted(res.candidates) != sorted(cs):
            out["viols"].append(_viol("weights", "add_missing_cands", i,
                                      f"result {vkit.jsonable(sorted(got.items()))} != expected {vkit.jsonable(sorted(exp.items()))}"))
    except Exception as e:
        out["viols"].append(_viol("exception", "add_missing_cands", i, f"{type(e).__name__}: {e}"))
    try:
        res = resolve_profile_ties(prof)
        rb = tuple((vkit.canon_ranking(b.ranking), b.weight) for b in res.ballots)
        if any(len(p) != 1 for r, _ in rb for p in r):
            out["viols"].append(_viol("ties_left", "resolve_profile_ties", i, "result still has tied positions"))
        else:
            after = (cs, rb)
            for name, f in (("first-place", refs.ref_fpv), ("Borda", refs.ref_borda), ("pairwise", refs.ref_pairwise)):
                if f(case) != f(after):
                    out["viols"].append(_viol("totals", "resolve_profile_ties", i, f"{name} totals changed: {vkit.jsonable(f(case))} -> {vkit.jsonable(f(after))}"))
                    break
            ks = [r for r, _ in rb]
            if len(set(ks)) != len(ks):
                out["viols"].append(_viol("not_condensed", "resolve_profile_ties", i, "equal rankings left unmerged"))
    except Exception as e:
        out["viols"].append(_viol("exception", "resolve_profile_ties", i, f"{type(e).__name__}: {e}"))
    if any(len(p) > 1 for r, _ in bl for p in r):
        cnt["nontrivial"] += 1


def dedup(seq):
    outl = []
    for x in seq:
        if x not in outl:
            outl.append(x)
    return tuple(outl)


def run_clean(i, combo, cnt, out):
    from votekit.ballot import Ballot
    from votekit.pref_profile import PreferenceProfile
    from votekit import cleaning as C

    ballots = tuple(Ballot(ranking=tuple(frozenset({x}) for x in seq), weight=F(k + 1, 2)) for k, seq in enumerate(combo))
    prof = PreferenceProfile(ballots=ballots)
    seqs = [(tuple(seq), F(k + 1, 2)) for k, seq in enumerate(combo)]

    def as_seq(b):
        return tuple(next(iter(p)) for p in b.ranking) if b.ranking else ()

    # deduplicate_profiles
    cnt["executions"] += 1
    try:
        res = C.deduplicate_profiles(prof)
        exp = {}
        for s, w in seqs:
            exp[dedup(s)] = exp.get(dedup(s), F(0)) + w
        got = {}
        for b in res.ballots:
            got[as_seq(b)] = got.get(as_seq(b), F(0)) + b.weight
        if got != exp:
            out["viols"].append(_viol("weights", "deduplicate_profiles", i, f"result {vkit.jsonable(sorted(got.items(), key=repr))} != expected {vkit.jsonable(sorted(exp.items(), key=repr))}"))
    except Exception as e:
        out["viols"].append(_viol("exception", "deduplicate_profiles", i, f"{type(e).__name__}: {e}"))
    # remove_noncands for every subset of the alphabet
    a_, b_, c_ = fam.cands(3)
    for removed in ([], [None], [a_], [a_, None], [a_, b_, c_], [a_, b_, c_, None], ["Z"]):
        cnt["executions"] += 1
        try:
            res = C.remove_noncands(prof, removed)
        except Exception as e:
            out["viols"].append(_viol("exception", "remove_noncands", i, f"{type(e).__name__}: {e}", {"non_cands": removed}))
            continue
        exp = {}
        for s, w in seqs:
            k = dedup(tuple(x for x in s if x not in removed))
            if k:
                exp[k] = exp.get(k, F(0)) + w
        got = {}
        bad = None
        for b in res.ballots:
            sq = as_seq(b)
            if any(x in removed for x in sq):
                bad = f"removed entry appears in {sq}"
            if not sq and b.weight > 0:
                bad = "empty ballot with positive weight kept"
            got[dedup(sq)] = got.get(dedup(sq), F(0)) + b.weight
        got = {k: v for k, v in got.items() if k}
        if bad or got != exp:
            out["viols"].append(_viol("weights", "remove_noncands", i,
                                      bad or f"result {vkit.jsonable(sorted(got.items(), key=repr))} != expected {vkit.jsonable(sorted(exp.items(), key=repr))}",
                                      {"non_cands": removed}))
    # remove_empty_ballots: add an empty ballot at each position
    for pos in range(len(ballots) + 1):
        bl2 = ballots[:pos] + (Ballot(weight=F(7)),) + ballots[pos:]
        p2 = PreferenceProfile(ballots=bl2, candidates=fam.cands(3) + ("Q",))
        for keep in (False, True):
            cnt["executions"] += 1
            try:
                res = C.remove_empty_ballots(p2, keep)
            except Exception as e:
                out["viols"].append(_viol("exception", "remove_empty_ballots", i, f"{type(e).__name__}: {e}"))
                continue
            got = [(as_seq(b), b.weight) for b in res.ballots]
            if got != [(s, w) for s, w in seqs]:
                out["viols"].append(_viol("weights", "remove_empty_ballots", i, f"result {vkit.jsonable(got)}"))
            if keep and tuple(res.candidates) != p2.candidates:
                out["viols"].append(_viol("candidates", "remove_empty_ballots", i, "keep_candidates=True did not keep the candidates"))
    if any(len(set(s)) < len(s) for s, _ in seqs):
        cnt["nontrivial"] += 1


def run_case(i, tier):
    kind, c = _get(i)
    cnt = collections.Counter()
    out = {"counters": cnt, "viols": []}
    {"remove": run_remove, "single": run_single, "expand": run_expand, "addres": run_addres, "clean": run_clean}[kind](i, c, cnt, out)
    # one violation per (kind, function) per case is enough
    seen = set()
    keep = []
    for v in out["viols"]:
        k = (v["sig"]["kind"], v["sig"]["rule"])
        if k not in seen:
            seen.add(k)
            keep.append(v)
    out["viols"] = keep
    cnt["states"] += 1
    if isinstance(i, int) and i % 1201 == 0:
        out["sample"] = case_json(i)
    return out


def finalize(agg, tier):
    return {"coverage": {
        "exhaustive": True,
        "rule": "cases = profiles / single ballots / tied rankings / loader-style ballot tuples, each run through every removal set and flag "
                "combination; nontrivial = remove_cand cases, ballots with a tied position (expand/resolve), cleaning cases with a repeated candidate",
    }}

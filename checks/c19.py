"""C19 -- Lp profile distance is a true metric; the ballot graph is complete and exact.

X4: all ordered pairs and all triples of a bounded profile family, p in {1,2,3,5,inf},
against an exact rational reference; BallotGraph(n) node and edge sets for n = 2..6 against
the definition; every single ballot loaded onto the graph.
"""

from __future__ import annotations

import collections
import itertools
import multiprocessing as mp
from fractions import Fraction

import numpy as np

from engine import families as fam, vkit
from . import common

ID = "C19"
LEVEL = "exploration"
CHUNK = 8
F = Fraction
PVALS = (1, 2, 3, 5, "inf")
TOL = 1e-12
_CASES = None
_PROFS = None
_DISTS = None  # exact distributions
_MAT = None  # dict p -> ndarray


def _dist(case):
    tot = sum((F(w) for _, w in case[1]), F(0))
    d = {}
    for r, w in case[1]:
        d[r] = d.get(r, F(0)) + F(w) / tot
    return d


def _row(i):
    from votekit.metrics.distances import lp_dist

    pi = vkit.mk_profile(_PROFS[i])
    out = np.zeros((len(PVALS), len(_PROFS)))
    for j, cj in enumerate(_PROFS):
        pj = vkit.mk_profile(cj)
        for k, p in enumerate(PVALS):
            out[k, j] = lp_dist(pi, pj, p)
    return i, out


def build_cases(tier, seed):
    global _CASES, _PROFS, _DISTS, _MAT
    c3 = fam.cands(3)
    R3 = fam.rank_family(3)
    profs = fam.prof_list(R3, 2, (1, 2, F(1, 2)), c3)
    if tier == "quick":
        profs = profs[:45] + profs[45::4]  # all single-type profiles + every 4th two-type profile
    else:
        nine = fam.bullet_family(3) + fam.perm_family(3)
        profs = profs + [c for c in fam.prof_list(nine, 3, (1, 2), c3) if len(c[1]) == 3][::3]
    n_lin = len(profs)
    # ballots with tied positions: a tied ranking is a ranking of its own in the distribution
    wk = common.weak_profiles("quick")
    profs = profs + [c for c in wk[:: (40 if tier == "quick" else 10)] if any(len(pos) > 1 for r, _ in c[1] for pos in r)]
    # nearly equal distributions (relative difference 1e-6 .. 1e-10): "zero exactly for profiles with the same distribution"
    # also means non-zero for these, which a tolerance-based shortcut for "equal" profiles would get wrong
    r1, r2, r3 = R3[9], R3[11], R3[1]
    for big in (10 ** 6, 10 ** 10):
        for wa, wb in ((big, big + 1), (big + 1, big), (big, big)):
            profs.append((c3, ((r1, wa), (r2, wb))))
        profs.append((c3, ((r1, big), (r2, big), (r3, 1))))
    _PROFS = profs
    _DISTS = [_dist(c) for c in profs]
    n = len(profs)
    ctx = mp.get_context("fork")
    mat = {p: np.zeros((n, n)) for p in PVALS}
    with ctx.Pool(16) as pool:
        for i, rows in pool.imap_unordered(_row, range(n), chunksize=4):
            for k, p in enumerate(PVALS):
                mat[p][i, :] = rows[k]
    _MAT = mat
    cs = [("row", i) for i in range(n)]
    for k in range(2, 7):
        cs.append(("graph", k))
    for k in range(2, 6 if tier == "quick" else 7):
        for r in fam.rank_family(k):
            cs.append(("load", (k, r)))
    for i in range(0, n_lin, 3):
        cs.append(("loadprof", i))
    _CASES = cs
    meta = {
        "family": ("quick: 45 single-type + every 4th two-type profile of " if tier == "quick" else "all of ")
                  + "Prof(Rank(3),2,{1,2,1/2})" + ("" if tier == "quick" else " + every 3rd three-type profile over Bullet(3)+Perm(3) with weights {1,2}")
                  + " + a slice of Prof(Weak(3),2,{1,2}) containing tied positions + 8 nearly equal two/three-type profiles (weights 10^6, 10^6+1, 10^10, 10^10+1)"
                  + f" = {n} profiles; all ordered pairs x p in {PVALS} against exact rationals, all triples (triangle inequality on the cached "
                  "matrix), variants (every ballot order, condensed, all weights x2 and x1/3); BallotGraph(n) for n=2..6 against the definition; "
                  "every single ballot of Rank(n) loaded onto the graph",
        "assumptions": ["floating point: |d - exact| and symmetry/triangle slack 1e-12; d = 0 demanded exactly for equal distributions",
                        "profiles over a common candidate set; the ballot graph only takes untied rankings"],
        "coverage": {"pairs": n * n * len(PVALS), "triples": n ** 3 * len(PVALS)},
    }
    return list(range(len(cs))), meta


def _get(i):
    return _CASES[i] if isinstance(i, int) else i


def case_json(i):
    kind, c = _get(i)
    if kind == "row" or kind == "loadprof":
        return {"kind": kind, "profile": fam.case_to_json(_PROFS[c]) if _PROFS else c}
    return {"kind": kind, "data": vkit.jsonable(c)}


def case_from_json(j):
    raise NotImplementedError("C19 replays are run through the full check")


def _viol(kind, what, i, msg):
    return {"sig": {"kind": kind, "rule": what}, "msg": f"{what} on {case_json(i)}: {msg}", "case": case_json(i)}


def exact_dp(da, db, p):
    keys = set(da) | set(db)
    diffs = [abs(da.get(k, F(0)) - db.get(k, F(0))) for k in keys]
    if p == "inf":
        return max(diffs)
    return sum((d ** p for d in diffs), F(0))


def run_row(i, a, cnt, out):
    from votekit.metrics.distances import lp_dist
    from votekit.pref_profile import PreferenceProfile

    n = len(_PROFS)
    da = _DISTS[a]
    for k, p in enumerate(PVALS):
        M = _MAT[p]
        row = M[a, :]
        # exactness, identity of indiscernibles, symmetry
        for b in range(n):
            cnt["executions"] += 1
            ex = exact_dp(da, _DISTS[b], p)
            d = row[b]
            if p == "inf" or p == 1:
                ok = abs(d - float(ex)) <= TOL
            else:
                ok = abs(d ** p - float(ex)) <= TOL
            same = (da == _DISTS[b])
            if same and d != 0:
                out["viols"].append(_viol("identity", f"lp_dist p={p}", i, f"profiles {b} has the same distribution but distance {d}"))
                return
            if not same and d <= TOL:
                out["viols"].append(_viol("identity", f"lp_dist p={p}", i, f"different distributions (profile {fam.case_to_json(_PROFS[b])}) at distance {d}"))
                return
            if not ok:
                out["viols"].append(_viol("value", f"lp_dist p={p}", i,
                                          f"distance to {fam.case_to_json(_PROFS[b])} is {d}, exact value^p {ex}"))
                return
            if abs(d - M[b, a]) > TOL:
                out["viols"].append(_viol("symmetry", f"lp_dist p={p}", i, f"d(a,b)={d} d(b,a)={M[b, a]}"))
                return
        # triangle inequality: d(a,c) <= d(a,b) + d(b,c) for all b, c
        lhs = row[None, :]  # (1, n) over c
        rhs = row[:, None] + M  # (n over b, n over c)
        bad = np.argwhere(lhs > rhs + TOL)
        cnt["triples"] += n * n
        if len(bad):
            b, c = bad[0]
            out["viols"].append(_viol("triangle", f"lp_dist p={p}", i,
                                      f"d(a,c)={row[c]} > d(a,b)+d(b,c)={row[b]}+{M[b, c]} with b={fam.case_to_json(_PROFS[b])}, c={fam.case_to_json(_PROFS[c])}"))
            return
    # default p_value is 1
    for b in (0, (a * 5 + 1) % n):
        if lp_dist(vkit.mk_profile(_PROFS[a]), vkit.mk_profile(_PROFS[b])) != _MAT[1][a, b]:
            out["viols"].append(_viol("defaults", "lp_dist", i, "lp_dist(p, q) without p_value differs from lp_dist(p, q, 1)"))
            return
    # variants of profile a are at distance exactly 0
    cs, bl = _PROFS[a]
    pa = vkit.mk_profile(_PROFS[a])
    variants = []
    for perm in itertools.permutations(bl):
        variants.append(vkit.mk_profile((cs, perm)))
    variants.append(pa.condense_ballots())
    variants.append(vkit.mk_profile((cs, tuple((r, F(w) * 2) for r, w in bl))))
    variants.append(vkit.mk_profile((cs, tuple((r, F(w) / 3) for r, w in bl))))
    # a split of the first ballot into two identical ballots
    variants.append(vkit.mk_profile((cs, ((bl[0][0], F(bl[0][1]) / 4), (bl[0][0], F(bl[0][1]) * 3 / 4)) + tuple(bl[1:]))))
    other = vkit.mk_profile(_PROFS[(a * 7 + 3) % n])
    for v in variants:
        for p in PVALS:
            cnt["executions"] += 1
            d = lp_dist(pa, v, p)
            if d != 0:
                out["viols"].append(_viol("invariance", f"lp_dist p={p}", i, f"a reordered/condensed/rescaled copy is at distance {d}"))
                return
            if abs(lp_dist(v, other, p) - lp_dist(pa, other, p)) > TOL:
                out["viols"].append(_viol("invariance", f"lp_dist p={p}", i, "distance to a third profile changes under reordering/condensing/rescaling"))
                return
    cnt["nontrivial"] += 1


def ref_ballot_graph(n):
    lens = [L for L in range(1, n + 1) if L != n - 1]
    nodes = set()
    for L in lens:
        nodes.update(itertools.permutations(range(1, n + 1), L))
    edges = set()
    for v in nodes:
        L = len(v)
        for j in range(L - 1):
            w = v[:j] + (v[j + 1], v[j]) + v[j + 2:]
            edges.add(frozenset((v, w)))
        rest = [c for c in range(1, n + 1) if c not in v]
        if L + 1 in lens and L + 1 != n:
            for c in rest:
                edges.add(frozenset((v, v + (c,))))
        if L == n - 2:
            for c in rest:
                (last,) = [x for x in rest if x != c]
                edges.add(frozenset((v, v + (c, last))))
    return nodes, {e for e in edges if len(e) == 2}


def run_graph(i, n, cnt, out):
    from votekit.graphs import BallotGraph

    cnt["executions"] += 1
    try:
        g = BallotGraph(n)
    except Exception as e:
        out["viols"].append(_viol("exception", "BallotGraph", i, f"{type(e).__name__}: {e}"))
        return
    nodes = set(g.graph.nodes)
    edges = {frozenset(e) for e in g.graph.edges}
    rn, re = ref_ballot_graph(n)
    if nodes != rn:
        out["viols"].append(_viol("nodes", "BallotGraph", i, f"node set differs: missing {sorted(rn - nodes)[:5]} extra {sorted(nodes - rn, key=repr)[:5]}"))
    if edges != re:
        out["viols"].append(_viol("edges", "BallotGraph", i,
                                  f"edge set differs: missing {[sorted(e) for e in list(re - edges)[:4]]} extra {[sorted(e) for e in list(edges - re)[:4]]}"))
    cnt["nontrivial"] += 1
    cnt["graph_nodes"] += len(rn)
    cnt["graph_edges"] += len(re)


def run_load(i, data, cnt, out):
    from votekit.graphs import BallotGraph

    n, r = data
    cs = fam.cands(n)
    num = {c: k + 1 for k, c in enumerate(cs)}
    case = (cs, ((r, F(5, 2)),))
    cnt["executions"] += 1
    try:
        g = BallotGraph(vkit.mk_profile(case))
    except Exception as e:
        out["viols"].append(_viol("exception", "BallotGraph(profile)", i, f"{type(e).__name__}: {e}"))
        return
    node = tuple(num[p[0]] for p in r)
    if len(node) == n - 1:
        node = node + tuple(x for x in range(1, n + 1) if x not in node)
    w = {k: v for k, v in g.node_weights.items() if v != 0}
    gw = {k: d["weight"] for k, d in g.graph.nodes(data=True) if d["weight"] != 0}
    if w != {node: F(5, 2)} or gw != {node: F(5, 2)}:
        out["viols"].append(_viol("node_weight", "BallotGraph(profile)", i, f"ballot {r} should load weight 5/2 on node {node}; got {w} / {gw}"))
    if set(g.graph.nodes) != ref_ballot_graph(n)[0]:
        out["viols"].append(_viol("nodes", "BallotGraph(profile)", i, "node set differs from the definition"))
    cnt["nontrivial"] += 1


def run_loadprof(i, a, cnt, out):
    from votekit.graphs import BallotGraph

    case = _PROFS[a]
    cnt["executions"] += 1
    g = BallotGraph(vkit.mk_profile(case))
    tot = sum((F(w) for _, w in case[1]), F(0))
    if sum(g.node_weights.values()) != tot or g.num_voters != tot:
        out["viols"].append(_viol("total_weight", "BallotGraph(profile)", i, f"node weights sum to {sum(g.node_weights.values())}, profile weight {tot}"))


def run_case(i, tier):
    kind, c = _get(i)
    cnt = collections.Counter()
    out = {"counters": cnt, "viols": []}
    {"row": run_row, "graph": run_graph, "load": run_load, "loadprof": run_loadprof}[kind](i, c, cnt, out)
    cnt["states"] += 1
    if isinstance(i, int) and i % 173 == 0:
        out["sample"] = case_json(i)
    return out


def finalize(agg, tier):
    return {"coverage": {
        "exhaustive": True,
        "rule": "row case = one profile against all others for every p (value, identity, symmetry, all triangle inequalities through it, variants); "
                "graph cases = BallotGraph(n) node/edge sets, single-ballot loads; nontrivial = row cases + graph cases + loads",
    }}

"""C15 -- closed-form model probabilities equal their definitions.

X4: preference intervals, combined intervals, name-Bradley-Terry tables and
slate-Bradley-Terry ballot-type tables over finite parameter grids, against exact Fraction
evaluation of the definitions.
"""

from __future__ import annotations

import collections
import itertools
import math
from fractions import Fraction

from engine import families as fam, vkit

ID = "C15"
LEVEL = "exploration"
CHUNK = 16
F = Fraction
_CASES = None
SUPPORTS = (0, 1e-9, 1e-3, 0.1, 1, 3, 1e3)
COH = (0, 0.1, 0.3, 0.5, 0.7, 0.9, 1)
RTOL = 1e-9


def build_cases(tier, seed):
    global _CASES
    cs = []
    maxn = 4
    for n in range(1, maxn + 1):
        for sup in itertools.product(SUPPORTS, repeat=n):
            if n == 4 and tier == "quick" and (hash_free(sup) % 3) and 1e-9 not in sup:
                continue
            cs.append(("pi", sup))
    if tier != "quick":
        for n in (5, 6, 7):
            for sup in itertools.combinations_with_replacement((0, 0.1, 1, 3), n):
                if any(x > 0 for x in sup):
                    cs.append(("bt", sup))
            cs.append(("bt", tuple([1e-3, 1e3, 1, 0.1, 3, 2, 5][:n])))
    else:
        for n in (5, 6):
            cs.append(("bt", tuple([1e-3, 1e3, 1, 0.1, 3, 2][:n])))
            cs.append(("bt", tuple([0, 1, 1, 2, 0, 3][:n])))
    # combine: 1..3 blocs, cohesion vectors summing to 1
    grid = (0, 0.3, 0.5, 0.7, 1)
    for k in (1, 2, 3):
        for props in itertools.product(grid, repeat=k):
            if abs(sum(props) - 1) > 1e-12:
                continue
            for sup in itertools.product((0, 0.1, 3), repeat=2):
                cs.append(("combine", (props, sup)))
    for props in ((0.001, 0.999), (0.999, 0.001), (1e-6, 1 - 1e-6), (0.001, 0.001, 0.998)):
        for sup in itertools.product((0, 1e-6, 0.1, 3), repeat=2):
            cs.append(("combine", (props, sup)))
    # slate BT tables
    maxab = 5 if tier == "quick" else 7
    for a in range(0, maxab + 1):
        for b in range(0, maxab + 1 - a):
            if a + b == 0 or a == 0:
                continue
            for c in COH:
                for za in (0, 1, 2):  # 2: slate_to_candidates lists the blocs in the opposite order to bloc_voter_prop
                    cs.append(("sbt", (a, b, c, za)))
    from . import gens as _g
    for k in range(len(_g.two_bloc_params(tier))):
        cs.append(("nbt2", k))
    _CASES = cs
    meta = {
        "family": "two-bloc generators of the C14 parameter grid (combined interval and name-BT table of each bloc, dictionaries listed in "
                  "different orders); preference intervals over 1..4 candidates with supports from {0,1e-9,1e-3,0.1,1,3,1e3} (all tuples; every 3rd 4-tuple in quick) incl. the "
                  "name-Bradley-Terry table of each; name-BT on 5..7 candidates (thorough: all multisets over {0,0.1,1,3}); "
                  "combine_preference_intervals for 1..3 blocs x cohesion vectors over {0,0.3,0.5,0.7,1} summing to 1 and the skewed vectors (.001,.999),(1e-6,1-1e-6),(.001,.001,.998) with supports down to 1e-6; slate-Bradley-Terry ballot-type "
                  f"tables for slate sizes a+b<={maxab} (a>=1), cohesion in {COH}, with and without a zero-support candidate",
        "assumptions": ["supports are read as the exact value of the float; implementation floats must agree to relative 1e-9 and tables sum to 1 within 1e-9"],
    }
    return list(range(len(cs))), meta


def hash_free(t):
    # deterministic, hash-seed independent selector
    return sum(int(x * 1000) * (k + 1) for k, x in enumerate(t))


def _get(i):
    return _CASES[i] if isinstance(i, int) else i


def case_json(i):
    kind, c = _get(i)
    return {"kind": kind, "data": vkit.jsonable(c)}


def case_from_json(j):
    def tup(x):
        return tuple(tup(y) for y in x) if isinstance(x, list) else x

    return (j["kind"], tup(j["data"]) if j["kind"] != "nbt2" else j["data"])


witness_case = case_from_json


def _viol(kind, what, i, msg):
    return {"sig": {"kind": kind, "rule": what}, "msg": f"{what} on {case_json(i)}: {msg}", "case": case_json(i)}


def close(a, b):
    a, b = float(a), float(b)
    return abs(a - b) <= RTOL * max(abs(a), abs(b), 1e-300) or abs(a - b) < 1e-300


def exact_interval(sup):
    ex = {f"c{k}": F(s) for k, s in enumerate(sup)}
    tot = sum(ex.values())
    return {c: v / tot for c, v in ex.items() if v > 0}, {c for c, v in ex.items() if v == 0}


def check_interval(i, pi, exp, zero, what, out):
    if set(pi.interval) != set(exp) or set(pi.non_zero_cands) != set(exp) or set(pi.zero_cands) != zero:
        out["viols"].append(_viol("bookkeeping", what, i, f"interval keys {sorted(pi.interval)} zero {sorted(pi.zero_cands)}; expected {sorted(exp)} / {sorted(zero)}"))
        return False
    if any(not close(pi.interval[c], exp[c]) for c in exp) or not close(sum(pi.interval.values()), 1):
        out["viols"].append(_viol("values", what, i, f"interval {dict(pi.interval)} != {vkit.jsonable({c: float(v) for c, v in exp.items()})}"))
        return False
    return True


def bt_exact(interval):
    cands = sorted(interval)
    tab = {}
    for perm in itertools.permutations(cands):
        p = F(1)
        for a in range(len(perm)):
            for b in range(a + 1, len(perm)):
                p *= interval[perm[a]] / (interval[perm[a]] + interval[perm[b]])
        tab[perm] = p
    s = sum(tab.values())
    return {k: v / s for k, v in tab.items()}


def name_bt(sup):
    from votekit import ballot_generator as bg
    from votekit.pref_interval import PreferenceInterval as PI

    cands = [f"c{k}" for k in range(len(sup))]
    return bg.name_BradleyTerry(candidates=cands, pref_intervals_by_bloc={"X": {"X": PI({c: s for c, s in zip(cands, sup)})}},
                                bloc_voter_prop={"X": 1}, cohesion_parameters={"X": {"X": 1}})


def run_pi(i, sup, cnt, out, with_bt=True):
    from votekit.pref_interval import PreferenceInterval as PI

    cnt["executions"] += 1
    if all(s == 0 for s in sup):
        try:
            PI({f"c{k}": s for k, s in enumerate(sup)})
            out["viols"].append(_viol("not_rejected", "PreferenceInterval", i, "all-zero supports accepted"))
        except ZeroDivisionError:
            pass
        except Exception as e:
            out["viols"].append(_viol("exception", "PreferenceInterval", i, f"{type(e).__name__}: {e}"))
        return
    try:
        pi = PI({f"c{k}": s for k, s in enumerate(sup)})
    except Exception as e:
        out["viols"].append(_viol("exception", "PreferenceInterval", i, f"{type(e).__name__}: {e}"))
        return
    exp, zero = exact_interval(sup)
    if not check_interval(i, pi, exp, zero, "PreferenceInterval", out):
        return
    if 0 in sup or len(set(sup)) > 1:
        cnt["nontrivial"] += 1
    if not with_bt:
        return
    run_bt(i, sup, cnt, out)


def run_bt(i, sup, cnt, out):
    cnt["executions"] += 1
    try:
        g = name_bt(sup)
        tab = g.pdfs_by_bloc["X"]
    except Exception as e:
        out["viols"].append(_viol("exception", "name_BradleyTerry", i, f"{type(e).__name__}: {e}"))
        return
    exp_int, zero = exact_interval(sup)
    if len(exp_int) > 6:
        # 7 non-zero candidates: compare ratios of a slice instead of the full exact table (5040 rankings)
        pass
    exp = bt_exact(exp_int)
    if set(tab) != set(exp):
        out["viols"].append(_viol("keys", "name_BradleyTerry", i, f"table has {len(tab)} rankings, expected all {len(exp)} rankings of the non-zero candidates"))
        return
    if not close(sum(tab.values()), 1):
        out["viols"].append(_viol("sum", "name_BradleyTerry", i, f"table sums to {sum(tab.values())}"))
        return
    for k in exp:
        if not close(tab[k], exp[k]):
            out["viols"].append(_viol("values", "name_BradleyTerry", i, f"P({k}) = {tab[k]} but the definition gives {float(exp[k])}"))
            return
    cnt["tables"] += 1


def run_combine(i, data, cnt, out):
    from votekit.pref_interval import PreferenceInterval as PI, combine_preference_intervals

    props, sup2 = data
    k = len(props)
    cnt["executions"] += 1
    intervals = []
    exact_parts = []
    for b in range(k):
        sup = {f"b{b}x": 1.0, f"b{b}y": sup2[b % 2], f"b{b}z": sup2[(b + 1) % 2] * 2}
        intervals.append(PI(dict(sup)))
        ex = {c: F(v) for c, v in sup.items()}
        tot = sum(ex.values())
        exact_parts.append({c: v / tot for c, v in ex.items()})
    try:
        comb = combine_preference_intervals(intervals, list(props))
    except Exception as e:
        out["viols"].append(_viol("exception", "combine_preference_intervals", i, f"{type(e).__name__}: {e}"))
        return
    exp = {}
    zero = set()
    for part, p in zip(exact_parts, props):
        for c, v in part.items():
            val = v * F(p)
            if val > 0:
                exp[c] = val
            else:
                zero.add(c)
    tot = sum(exp.values())
    exp = {c: v / tot for c, v in exp.items()}
    check_interval(i, comb, exp, zero, "combine_preference_intervals", out)
    if k > 1:
        cnt["nontrivial"] += 1


def sbt_exact(a, b, c):
    items = ["X"] * a + ["Y"] * b
    types = set(itertools.permutations(items))
    c = F(c)
    tab = {}
    for t in types:
        succ = sum(t[k + 1:].count("Y") for k, x in enumerate(t) if x == "X")
        fail = a * b - succ
        tab[t] = (c ** succ) * ((1 - c) ** fail)
    s = sum(tab.values())
    return {k: v / s for k, v in tab.items()}, len(types)


def run_sbt(i, data, cnt, out):
    from votekit import ballot_generator as bg
    from votekit.pref_interval import PreferenceInterval as PI

    a, b, c, za = data
    cnt["executions"] += 1
    xs = [f"x{k}" for k in range(a)] + (["xz"] if za == 1 else [])
    ys = [f"y{k}" for k in range(b)] or []
    s2c = {"X": xs, "Y": ys if ys else ["yz"]}
    if za == 2:
        s2c = {"Y": s2c["Y"], "X": s2c["X"]}
    pix = {x: (0 if x == "xz" else 1 + k) for k, x in enumerate(xs)}
    piy = {y: 1 + k for k, y in enumerate(ys)} if ys else {"yz": 0}
    try:
        if not ys:
            # a slate whose candidates all have zero support cannot form an interval: the Y slate is empty in effect
            raise_skip = True
        else:
            raise_skip = False
        if raise_skip:
            cnt["skipped"] += 1
            return
        pis = {"X": {"X": PI(dict(pix)), "Y": PI(dict(piy))}, "Y": {"X": PI(dict(pix)), "Y": PI(dict(piy))}}
        g = bg.slate_BradleyTerry(slate_to_candidates=s2c, pref_intervals_by_bloc=pis, bloc_voter_prop={"X": 0.5, "Y": 0.5},
                                  cohesion_parameters={"X": {"X": c, "Y": 1 - c}, "Y": {"Y": 0.6, "X": 0.4}})
        tab = g.ballot_type_pdf["X"]
    except Exception as e:
        out["viols"].append(_viol("exception", "slate_BradleyTerry", i, f"{type(e).__name__}: {e}"))
        return
    exp, ntypes = sbt_exact(a, b, c)
    if set(tab) != set(exp):
        out["viols"].append(_viol("keys", "slate_BradleyTerry", i, f"table has {len(tab)} ballot types, expected the {ntypes} distinct slate orderings"))
        return
    if not close(sum(tab.values()), 1):
        out["viols"].append(_viol("sum", "slate_BradleyTerry", i, f"table sums to {sum(tab.values())}"))
        return
    for k in exp:
        if not (close(tab[k], exp[k]) or (exp[k] == 0 and tab[k] == 0)):
            out["viols"].append(_viol("values", "slate_BradleyTerry", i, f"P({''.join(k)}) = {tab[k]} but the definition gives {float(exp[k])}"))
            return
    cnt["tables"] += 1
    if b >= 1 and 0 < c < 1:
        cnt["nontrivial"] += 1


def run_nbt2(i, k, tier, cnt, out):
    """Two blocs: the generator's combined interval and name-BT table of each bloc against the definitions."""
    from . import gens

    p = gens.two_bloc_params(tier)[k]
    cnt["executions"] += 1
    for model in ("name_BradleyTerry", "name_PlackettLuce", "name_Cumulative"):
        try:
            g = gens.build_generator(model, p, **({"num_votes": 1} if model == "name_Cumulative" else {}))
        except Exception as e:
            out["viols"].append(_viol("exception", model, i, f"{type(e).__name__}: {e}"))
            return
        for b in p["props"]:
            iv, zero = gens.combined_interval(p, b)
            got = g.pref_interval_by_bloc[b]
            if set(got.interval) != set(iv) or set(got.zero_cands) != set(zero) or any(not close(got.interval[c], iv[c]) for c in iv):
                out["viols"].append(_viol("values", model + ".pref_interval_by_bloc", i,
                                          f"bloc {b}: combined interval {dict(got.interval)} (zero {sorted(got.zero_cands)}) != cohesion-weighted definition {iv} (zero {zero})"))
                return
            if model == "name_BradleyTerry":
                tab = g.pdfs_by_bloc[b]
                exp = gens.bt_table(iv)
                if set(tab) != set(exp) or any(not close(tab[r], exp[r]) for r in exp) or not close(sum(tab.values()), 1):
                    out["viols"].append(_viol("values", "name_BradleyTerry.pdfs_by_bloc", i, f"bloc {b}: table differs from the definition on the combined interval"))
                    return
                cnt["tables"] += 1
    # slate-Bradley-Terry ballot-type tables of BOTH blocs
    try:
        g = gens.build_generator("slate_BradleyTerry", p)
    except Exception as e:
        out["viols"].append(_viol("exception", "slate_BradleyTerry", i, f"{type(e).__name__}: {e}"))
        return
    for b in p["props"]:
        tab = g.ballot_type_pdf[b]
        exp = gens.slate_bt_type_law(p, b)
        if set(tab) != set(exp) or any(not (close(tab[t], exp[t]) or (tab[t] == 0 and exp[t] == 0)) for t in exp) or not close(sum(tab.values()), 1):
            out["viols"].append(_viol("values", "slate_BradleyTerry.ballot_type_pdf", i,
                                      f"bloc {b}: ballot-type table {dict(tab)} differs from the definition {exp}"))
            return
        cnt["tables"] += 1
    cnt["nontrivial"] += 1


def run_case(i, tier):
    kind, c = _get(i)
    cnt = collections.Counter()
    out = {"counters": cnt, "viols": []}
    if kind == "pi":
        run_pi(i, c, cnt, out)
    elif kind == "bt":
        run_pi(i, c, cnt, out, with_bt=False)
        run_bt(i, c, cnt, out)
        cnt["nontrivial"] += 1
    elif kind == "combine":
        run_combine(i, c, cnt, out)
    elif kind == "nbt2":
        run_nbt2(i, c, tier, cnt, out)
    else:
        run_sbt(i, c, cnt, out)
    cnt["states"] += 1
    if isinstance(i, int) and i % 397 == 0:
        out["sample"] = case_json(i)
    return out


def finalize(agg, tier):
    return {"coverage": {
        "exhaustive": True,
        "rule": "one case = one parameter set; nontrivial = intervals with a zero or unequal supports, combinations of >= 2 blocs, "
                "slate tables with both slates present and 0 < cohesion < 1, name-BT tables on >= 5 candidates",
    }}

"""C03 -- surplus transfers and STV rounds conserve votes.

Part A: the two transfer functions called directly on every ballot list of a bounded
family, every winner / threshold, every outcome of the random selection (exact law).
Part B: vote accounting round by round on every STV run of the C02 family.
"""

from __future__ import annotations

import collections
import itertools
import math
from fractions import Fraction

from engine import chooser, families as fam, lockstep, refs, vkit
from engine.chooser import CH
from . import common

ID = "C03"
LEVEL = "model_checking"
CHUNK = 8

F = Fraction
_CASES = None


def build_cases(tier, seed):
    global _CASES
    R3 = fam.rank_family(3)
    maxlen = 2 if tier == "quick" else 3
    cs = []
    # Part A: ballot lists (ordered, repetitions allowed)
    items_int = [(r, w) for r in R3 for w in (1, 2, 3)]
    items_rat = [(r, w) for r in R3 for w in (F(1, 2), F(3, 2))]
    if tier == "quick":
        lists = [l for L in range(1, maxlen + 1) for l in itertools.product(items_int, repeat=L)]
        lists_rat = [l for L in range(1, maxlen + 1) for l in itertools.product(items_rat, repeat=L)]
        lists_rat += [(a, b) for a in items_int[::3] for b in items_rat]
        # weights around one million: exact transfer values with denominators above 10**6
        big = [(r, w) for r in R3 for w in (1000003, 999983)]
        lists_rat += [(a, b) for a in big[::2] for b in big[1::3]]
    else:
        lists = [l for L in range(1, 3) for l in itertools.product(items_int, repeat=L)]
        # length 3 over weights {1,2}: 30^3 = 27000 lists
        it2 = [(r, w) for r in R3 for w in (1, 2)]
        lists += list(itertools.product(it2, repeat=3))
        lists_rat = [l for L in range(1, 3) for l in itertools.product(items_rat + [(r, F(1, 3)) for r in R3], repeat=L)]
    for l in lists:
        cs.append(("A", "int", l))
    for l in lists_rat:
        cs.append(("A", "rat", l))
    na = len(cs)
    for tag, c in common.rank_profiles(tier):
        cs.append(("B", tag, c))
    _CASES = cs
    meta = {
        "family": f"Part A: all ordered ballot lists (repetitions allowed) of length <= {maxlen} over Rank(3) x weights "
                  "{1,2,3} (both rules), {1/2,3/2} and {1000003,999983} (fractional rule) x every winner x every integer threshold 1..tally "
                  "(six representative thresholds when the tally exceeds 9) "
                  f"x every outcome of random.sample ({na} lists); Part B: every STV run (fractional and random transfer) of "
                  + common.family_text(tier) + " x m x quota x simultaneous x tiebreak=random, all paths",
        "assumptions": [
            "random.sample is uniform over selections (trusted primitive); identical unit ballots are grouped "
            "(multiset symmetry reduction, cross-checked against the fully ordered enumeration on every list of length 1)",
            "random rule: if the winner has fewer transferable ballots than tally-threshold, all of them are transferred",
        ],
    }
    return list(range(len(cs))), meta


def _get(i):
    return _CASES[i] if isinstance(i, int) else i


def case_json(i):
    part, tag, c = _get(i)
    if part == "A":
        return {"part": "A", "ballots": [{"ranking": fam.ranking_to_json(r), "weight": str(w)} for r, w in c]}
    d = fam.case_to_json(c)
    d["part"] = "B"
    return d


def case_from_json(j):
    if j.get("part") == "A":
        l = tuple((tuple(tuple(p) for p in b["ranking"]), fam._num(b["weight"])) for b in j["ballots"])
        tag = "int" if all(F(w).denominator == 1 for _, w in l) else "rat"
        return ("A", tag, l)
    c = fam.case_from_json(j)
    tag = "int" if all(F(w).denominator == 1 for _, w in c[1]) else "rat"
    return ("B", tag, c)


witness_case = case_from_json


def _viol(kind, rule, i, msg, path=None, exc=None, extra=None):
    sig = {"kind": kind, "rule": rule}
    if exc is not None:
        sig["exc"] = type(exc).__name__
        sig["where"] = vkit.exc_where(exc)
    d = {"sig": sig, "msg": f"{rule} on {case_json(i)} {extra or ''}: {msg}", "case": case_json(i)}
    if extra:
        d["config"] = vkit.jsonable(extra)
    if path is not None:
        d["choices"] = list(path.choices)
        d["values"] = vkit.jsonable(path.values)
    return d


def _lin(r):
    return tuple(p[0] for p in r)


def _out_dict(ballots, w, out_viols):
    """{linear ranking: weight} of returned ballots; checks that w is not mentioned."""
    d = {}
    for b in ballots:
        r = vkit.canon_ranking(b.ranking)
        if not r:
            return None, "returned a ballot without ranking"
        if any(w in p for p in r):
            return None, f"returned ballot {r} still mentions the winner {w}"
        if any(len(p) != 1 for p in r):
            return None, f"returned ballot {r} has a tied position"
        if b.weight <= 0:
            return None, f"returned ballot {r} has weight {b.weight}"
        k = _lin(r)
        d[k] = d.get(k, F(0)) + b.weight
    return d, None


def part_a(i, tag, blist, cnt, out):
    cs = fam.cands(3)
    for w in cs:
        led = [(r, x) for r, x in blist if r[0][0] == w]
        t = sum((F(x) for _, x in led), F(0))
        if t < 1:
            continue
        # images under deletion of w
        def strip(r):
            return tuple(c for c in _lin(r) if c != w)
        ft = math.floor(t)
        thresholds = range(1, ft + 1) if ft <= 9 else sorted({1, 2, ft // 3 + 1, ft // 2, ft - 1, ft})
        for thr in thresholds:
            ballots = [vkit.mk_ballot(r, x) for r, x in blist]
            # ---------------- fractional ---------------------------------------------
            exp = {}
            for r, x in blist:
                k = strip(r)
                if not k:
                    continue
                val = F(x) * (t - thr) / t if r[0][0] == w else F(x)
                if val > 0:
                    exp[k] = exp.get(k, F(0)) + val
            path = chooser.run_once(lambda: vkit.T.fractional_transfer(w, t, list(ballots), thr))
            cnt["executions"] += 1
            if path.exc is not None:
                out["viols"].append(_viol("exception", "fractional_transfer", i,
                                          f"{type(path.exc).__name__}: {path.exc}", path, path.exc, {"winner": w, "threshold": thr}))
            else:
                if path.branching:
                    out["viols"].append(_viol("randomness", "fractional_transfer", i, "consumed randomness", path))
                got, err = _out_dict(path.result, w, out)
                if err or got != exp:
                    out["viols"].append(_viol("weights", "fractional_transfer", i,
                                              err or f"returned {vkit.jsonable(got)} expected {vkit.jsonable(exp)}",
                                              path, None, {"winner": w, "threshold": thr, "tally": str(t)}))
            cnt["transitions"] += 1
            # ---------------- random --------------------------------------------------
            if tag != "int":
                continue
            units = collections.Counter()
            for r, x in led:
                k = strip(r)
                if k:
                    units[k] += int(x)
            T = sum(units.values())
            s = min(int(t) - thr, T)
            others = {}
            for r, x in blist:
                if r[0][0] != w:
                    k = strip(r)
                    if k:
                        others[k] = others.get(k, F(0)) + F(x)
            fn = lambda: vkit.T.random_transfer(w, t, list(ballots), thr)
            modes = ["auto"]
            if len(blist) == 1 or (isinstance(i, int) and i % 7 == 0 and T <= 5):
                modes.append("ordered")
            dists = []
            for mode in modes:
                CH.sample_mode = mode
                try:
                    paths = chooser.explore_all(fn, max_paths=100000)
                finally:
                    CH.sample_mode = "auto"
                dist = {}
                for p in paths:
                    cnt["executions"] += 1
                    cnt["paths"] += 1
                    if p.exc is not None:
                        out["viols"].append(_viol("exception", "random_transfer", i,
                                                  f"{type(p.exc).__name__}: {p.exc}", p, p.exc,
                                                  {"winner": w, "threshold": thr, "tally": str(t)}))
                        dist = None
                        break
                    got, err = _out_dict(p.result, w, out)
                    if err:
                        out["viols"].append(_viol("weights", "random_transfer", i, err, p))
                        dist = None
                        break
                    # selected = got - others
                    sel = {}
                    bad = None
                    for k in set(got) | set(others):
                        d = got.get(k, F(0)) - others.get(k, F(0))
                        if d < 0 or d.denominator != 1:
                            bad = f"ballots not led by the winner changed weight on {k}: {d}"
                        elif d > 0:
                            sel[k] = int(d)
                    if bad is None:
                        if any(v > units.get(k, 0) for k, v in sel.items()):
                            bad = f"transferred {sel} is not a sub-collection of the winner's transferable ballots {dict(units)}"
                        elif sum(sel.values()) != s:
                            bad = (f"transferred {sum(sel.values())} whole ballots, expected tally-threshold = "
                                   f"{int(t) - thr} (transferable: {T})")
                    if bad:
                        out["viols"].append(_viol("selection", "random_transfer", i, bad, p, None,
                                                  {"winner": w, "threshold": thr, "tally": str(t)}))
                        dist = None
                        break
                    key = tuple(sorted(sel.items()))
                    dist[key] = dist.get(key, F(0)) + p.prob
                if dist is None:
                    break
                dists.append(dist)
                # exact law: multivariate hypergeometric over the transferable unit ballots
                keys = sorted(units)
                tot = math.comb(T, s) if T else 1
                exp_dist = {}
                for selv in chooser._multiset_selections([units[k] for k in keys], s):
                    pr = F(1)
                    for k, kv in zip(keys, selv):
                        pr *= math.comb(units[k], kv)
                    exp_dist[tuple(sorted((k, kv) for k, kv in zip(keys, selv) if kv))] = pr / tot
                if dist != exp_dist:
                    # per-ballot inclusion probabilities for the message
                    incl = {k: sum(pr * dict(sel).get(k, 0) for sel, pr in dist.items()) / units[k] for k in keys}
                    out["viols"].append(_viol("law", "random_transfer", i,
                                              f"selection law differs from 'every {s}-subset of the {T} transferable ballots "
                                              f"equally likely'; per-ballot inclusion probabilities {vkit.jsonable(incl)}",
                                              None, None, {"winner": w, "threshold": thr, "tally": str(t), "mode": mode}))
                    break
                cnt["laws_checked"] += 1
            if len(dists) == 2 and dists[0] != dists[1]:
                raise chooser.ReplayDivergence("multiset and ordered sample enumeration disagree")
            if len(dists) == 2:
                cnt["sample_mode_crosschecks"] += 1
            if T > 1 and 0 < s < T:
                cnt["nontrivial"] += 1
            cnt["transitions"] += 1


def part_b(i, tag, case, cnt, out):
    n = len(case[0])
    for rule in ("STV", "STVrandom"):
        if rule == "STVrandom" and tag != "int":
            continue
        for m in range(1, n + 1):
            for q in ("droop", "hare"):
                for sim in (True, False):
                    vrule, kw, tr = common.stv_ctor(rule, m, q, sim, "random")
                    cfg = refs.STVConfig(m, q, sim, "random", tr, case)
                    if cfg.thr <= 0:
                        cnt["skipped_out_of_domain"] += 1
                        continue
                    fn = vkit.election_fn(vrule, case, kw)
                    np_ = 0
                    for path in chooser.explore(fn, max_paths=50000):
                        np_ += 1
                        cnt["executions"] += 1
                        if path.exc is not None:
                            cnt["skipped_exception"] += 1  # judged by C01
                            continue
                        e = path.result
                        states = vkit.canon_election(e)
                        v = lockstep.follow(states, None, case, cfg)
                        if v.status != "ok":
                            if v.status == "out_of_domain":
                                cnt["skipped_out_of_domain"] += 1
                            else:
                                cnt["skipped_not_a_legal_count"] += 1  # judged by C02
                        W = [sum(dict(st[5]).values(), F(0)) for st in states]
                        thr = e.threshold
                        for r in range(1, len(states)):
                            drop = W[r - 1] - W[r]
                            E = [c for g in states[r][2] for c in g]
                            X = [c for g in states[r][3] for c in g]
                            prev_sc = dict(states[r - 1][5])
                            msg = None
                            if drop < 0:
                                msg = f"total weight increased from {W[r-1]} to {W[r]}"
                            elif X and not E:
                                # elimination: only ballots left with no surviving choice may vanish
                                if drop > prev_sc.get(X[0], 0):
                                    msg = f"eliminating {X[0]} (tally {prev_sc.get(X[0])}) lost {drop}"
                                elif len(v.per_round) >= r:
                                    exps = set()
                                    for (B, rem, nel) in v.per_round[r - 1]:
                                        exps.add(sum((w for rk, w in B.items() if all(c == X[0] for c in rk)), F(0)))
                                    if drop not in exps:
                                        msg = (f"eliminating {X[0]} lost {drop}, but the ballots left with no surviving "
                                               f"choice weigh {sorted(exps)}")
                            elif E:
                                quota_el = [c for c in E if prev_sc.get(c, 0) >= thr]
                                if len(quota_el) == len(E) and E:
                                    lo = thr * len(E)
                                    hi = sum(prev_sc[c] for c in E)
                                    if not (lo <= drop <= hi):
                                        msg = (f"electing {E} (tallies {[str(prev_sc[c]) for c in E]}, threshold {thr}) "
                                               f"changed the total by {drop}, outside [{lo},{hi}]")
                                    elif len(v.per_round) >= r and tr == "fractional":
                                        exps = set()
                                        for (B, rem, nel) in v.per_round[r - 1]:
                                            tt = refs.tallies(B, rem)
                                            ex = F(0)
                                            for c in E:
                                                tv = (tt[c] - thr) / tt[c]
                                                dead = sum((w for rk, w in B.items()
                                                            if rk[0] == c and all(x in E for x in rk)), F(0))
                                                ex += thr + tv * dead
                                            exps.add(ex)
                                        if drop not in exps:
                                            msg = (f"electing {E}: total dropped by {drop}; threshold consumed plus "
                                                   f"exhausted weight is {sorted(exps)}")
                            if msg:
                                out["viols"].append(_viol("accounting", rule, i, f"round {r}: {msg}", path, None, kw))
                                break
                            cnt["transitions"] += 1
                        cnt["traces"] += 1
                    if np_ > 1:
                        cnt["nontrivial"] += 1


def run_case(i, tier):
    part, tag, c = _get(i)
    cnt = collections.Counter()
    out = {"counters": cnt, "viols": []}
    if part == "A":
        part_a(i, tag, c, cnt, out)
        cnt["states"] += 1
    else:
        part_b(i, tag, c, cnt, out)
        cnt["states"] += 1
    if isinstance(i, int) and i % 997 == 0:
        out["sample"] = case_json(i)
    return out


def finalize(agg, tier):
    return {"coverage": {
        "exhaustive": True,
        "rule": "Part A case = one ordered ballot list, run for every winner/threshold and every selection outcome; "
                "nontrivial = random-rule instances with a genuine choice (0 < surplus < transferable) plus Part B "
                "configurations with more than one path",
        "explanation": "states = cases (ballot lists / profiles); transitions = transfer applications and count rounds "
                       "whose accounting was checked; traces = complete STV runs (Part B)",
    }}

"""C14 -- ballot generators return well-formed profiles of exactly the requested size.

X1 over the whole RNG stream of every generator on small parameter sets; structural oracle
on every path.
"""

from __future__ import annotations

import collections
import itertools
from fractions import Fraction

import numpy as np

from engine import chooser, vkit
from engine.chooser import CH
from . import gens

ID = "C14"
LEVEL = "model_checking"
CHUNK = 4
F = Fraction
_CASES = None
MAX_PATHS = 6000

BLOC_MODELS = ("name_PlackettLuce", "short_name_PlackettLuce", "name_BradleyTerry", "name_BradleyTerry_MCMC", "name_Cumulative",
               "slate_PlackettLuce", "slate_BradleyTerry", "slate_BradleyTerry_MCMC", "AlternatingCrossover", "CambridgeSampler")
COMPLETE = ("name_PlackettLuce", "name_BradleyTerry", "name_BradleyTerry_MCMC", "slate_PlackettLuce", "slate_BradleyTerry",
            "slate_BradleyTerry_MCMC")


def build_cases(tier, seed):
    global _CASES
    cs = []
    two = gens.two_bloc_params(tier)
    one = gens.one_bloc_params(tier)
    Ns = (1, 2) if tier == "quick" else (1, 2, 3)
    for k, p in enumerate(two):
        ncand = len(gens.all_cands(p))
        for model in BLOC_MODELS:
            if tier == "quick" and k % 2 and model in ("name_BradleyTerry_MCMC", "slate_BradleyTerry_MCMC", "CambridgeSampler", "AlternatingCrossover"):
                continue
            for N in Ns:
                if model == "short_name_PlackettLuce":
                    for L in range(1, ncand + 1):
                        cs.append((model, ("two", k), N, {"ballot_length": L}))
                elif model == "name_Cumulative":
                    for nv in (1, 2, 3):
                        cs.append((model, ("two", k), N, {"num_votes": nv}))
                else:
                    cs.append((model, ("two", k), N, {}))
    for k, p in enumerate(one):
        for model in ("name_PlackettLuce", "name_BradleyTerry", "name_BradleyTerry_MCMC", "name_Cumulative", "slate_PlackettLuce",
                      "slate_BradleyTerry", "short_name_PlackettLuce"):
            for N in (1, 2, 3):
                ex = {}
                if model == "short_name_PlackettLuce":
                    ex = {"ballot_length": 2}
                if model == "name_Cumulative":
                    ex = {"num_votes": 2}
                cs.append((model, ("one", k), N, ex))
    for k, p in enumerate(gens.three_bloc_params(tier)):
        for model in ("name_PlackettLuce", "name_BradleyTerry", "name_BradleyTerry_MCMC", "name_Cumulative", "slate_PlackettLuce",
                      "short_name_PlackettLuce"):
            for N in (1, 2, 3, 4) if len(gens.all_cands(p)) == 3 else (1, 2, 3):
                ex = {}
                if model == "short_name_PlackettLuce":
                    ex = {"ballot_length": 2}
                if model == "name_Cumulative":
                    ex = {"num_votes": 2}
                cs.append((model, ("three", k), N, ex))
    for n in (2, 3):
        for N in (1, 2, 3):
            for model in ("ImpartialCulture", "ImpartialAnonymousCulture", "from_point"):
                if n == 3 and N == 3 and tier == "quick":
                    continue
                cs.append((model, ("cands", n), N, {}))
    for n in (2, 3):
        for N in (1, 2):
            cs.append(("OneDimSpatial", ("cands", n), N, {}))
    for n in (2,):
        for N in (1, 2):
            cs.append(("Spatial", ("cands", n), N, {}))
            cs.append(("ClusteredSpatial", ("cands", n), N, {}))
    cs.append(("Spatial_default", ("cands", 2), 1, {}))
    cs.append(("ClusteredSpatial_default", ("cands", 2), 1, {}))
    _CASES = cs
    meta = {
        "family": "generators: name_/short_name_PlackettLuce, name_BradleyTerry (exact, MCMC), name_Cumulative, slate_PlackettLuce, slate_BradleyTerry "
                  "(exact, MCMC), AlternatingCrossover, CambridgeSampler (custom 4-type historical table) on two blocs with slate sizes "
                  "(1,1),(2,1),(2,2)" + ("" if tier == "quick" else ",(1,2)") + ", supports {(.2,.8),(1,0),(.5,.5)}, cohesion {1,.7,.5,.3" + (",0" if tier != "quick" else "") + "}, proportions "
                  "{(.5,.5),(.7,.3),(1,0)} on one bloc of 2..3 candidates and on three blocs (name models, slate_PlackettLuce; N <= 4); ImpartialCulture, ImpartialAnonymousCulture, BallotSimplex.from_point on "
                  f"2..3 candidates; OneDimSpatial / Spatial / ClusteredSpatial on finite position grids; N in {Ns}; all RNG paths, by_bloc=True",
        "assumptions": ["small scope: <= 4 candidates, N <= 3 ballots; a case with more than 6000 paths is explored with deviation bound 2 and flagged",
                        "continuous draws of the spatial models range over a finite grid; Dirichlet draws over a two-point menu"],
    }
    return list(range(len(cs))), meta


def _get(i):
    return _CASES[i] if isinstance(i, int) else i


def params_of(ref, tier="quick"):
    kind, k = ref
    if kind == "explicit":
        return k
    if kind == "two":
        return gens.two_bloc_params(_TIER[0])[k]
    if kind == "one":
        return gens.one_bloc_params(_TIER[0])[k]
    if kind == "three":
        return gens.three_bloc_params(_TIER[0])[k]
    return None


_TIER = ["quick"]


def case_json(i):
    model, ref, N, ex = _get(i)
    d = {"model": model, "params": list(ref), "N": N, "extra": ex}
    p = params_of(ref)
    if p:
        d["param_values"] = vkit.jsonable(p)
    return d


def case_from_json(j):
    return (j["model"], tuple(j["params"]), j["N"], j.get("extra", {}))


witness_case = case_from_json


def _viol(kind, model, i, msg, path=None, exc=None, pred=None):
    sig = {"kind": kind, "rule": model}
    if exc is not None:
        sig["exc"] = type(exc).__name__
        sig["where"] = vkit.exc_where(exc)
    if pred:
        sig["pred"] = pred
    d = {"sig": sig, "msg": f"{model} on {case_json(i)}: {msg}", "case": case_json(i)}
    if path is not None:
        d["choices"] = list(path.choices)[:60]
        d["values"] = vkit.jsonable(path.values)[:30]
    return d


def weights_ok(prof, N):
    tot = F(0)
    for b in prof.ballots:
        if b.weight <= 0 or b.weight.denominator != 1:
            return f"ballot weight {b.weight} is not a positive whole number"
        tot += b.weight
    if tot != N:
        return f"total weight {tot} != requested {N}"
    return None


def ranking_wellformed(b, cands):
    seen = []
    for pos in b.ranking or ():
        for c in pos:
            if c not in cands:
                return f"ranking uses undeclared candidate {c!r}"
            if c in seen:
                return f"candidate {c!r} appears twice"
            seen.append(c)
    return None


def _package_hh(shares, N):
    """What the third-party apportionment package returns for these shares.  Known finding K7 covers exactly the
    parameter sets for which this output itself is not a Huntington-Hill apportionment (N smaller than the number of
    parties); a wrong split on any other parameter set is a fresh violation."""
    import apportionment.methods as apportion

    return tuple(apportion.compute("huntington", list(shares), N))


def check_bloc_model(i, model, p, N, ex, res, cnt):
    by_bloc, agg = res
    cands = gens.all_cands(p)
    msg = weights_ok(agg, N)
    if msg:
        return "size", msg
    blocs = list(p["props"].keys())
    sizes = []
    sumkeys = {}
    for b in blocs:
        pb = by_bloc[b]
        sizes.append(sum((x.weight for x in pb.ballots), F(0)))
        for x in pb.ballots:
            if x.weight <= 0 or x.weight.denominator != 1:
                return "size", f"bloc {b}: ballot weight {x.weight}"
            k = gens.ballot_key(x)
            sumkeys[k] = sumkeys.get(k, F(0)) + x.weight
    aggkeys = {}
    for x in agg.ballots:
        k = gens.ballot_key(x)
        aggkeys[k] = aggkeys.get(k, F(0)) + x.weight
    if sumkeys != aggkeys:
        return "by_bloc_sum", "the per-bloc profiles do not add up to the aggregate profile"
    props = [p["props"][b] for b in blocs]
    if model in ("AlternatingCrossover", "CambridgeSampler"):
        coh = [p["cohesion"][b][b] for b in blocs]
        four = []
        for b, c in zip(blocs, coh):
            four += [c * p["props"][b], (1 - c) * p["props"][b]]
        legal = gens.ref_hh(four, N)
        got = []
        classifiable = []
        for b in blocs:
            own = set(p["slates"][b])
            opp_b = [x for x in blocs if x != b][0]
            nb = nc = F(0)
            for x in by_bloc[b].ballots:
                first = next(iter(x.ranking[0])) if x.ranking else None
                if first in own:
                    nb += x.weight
                else:
                    nc += x.weight
            got += [int(nb), int(nc)]
            # a ballot reveals its voter type through its first candidate only if the voter can place candidates of both slates
            c_b = p["cohesion"][b][b]
            classifiable.append(0 < c_b < 1 and len(gens.normalized(p["supports"][b][b])[0]) > 0
                                and len(gens.normalized(p["supports"][b][opp_b])[0]) > 0)
        def compatible(a):
            for k, b in enumerate(blocs):
                if a[2 * k] + a[2 * k + 1] != got[2 * k] + got[2 * k + 1]:
                    return False
                if classifiable[k] and (a[2 * k], a[2 * k + 1]) != (got[2 * k], got[2 * k + 1]):
                    return False
            return True
        if not any(compatible(a) for a in legal):
            return ("apportionment_fewer_ballots_than_parties" if N < len(four) and _package_hh(four, N) not in legal else "apportionment"), (
                f"bloc-first / opposing-first ballot counts {got} (types identifiable per bloc: {classifiable}) are not a Huntington-Hill "
                f"apportionment of {N} by {[float(x) for x in four]} (legal: {sorted(legal)})")
    else:
        legal = gens.ref_hh(props, N)
        if tuple(int(s) for s in sizes) not in legal:
            return ("apportionment_fewer_ballots_than_parties"
                    if N < len(props) and _package_hh(props, N) not in legal else "apportionment"), (
                f"bloc sizes {[int(s) for s in sizes]} are not a Huntington-Hill apportionment of {N} by {props} (legal: {sorted(legal)})")
    for b in blocs:
        if model.startswith("name_") or model == "short_name_PlackettLuce":
            iv, zero = gens.combined_interval(p, b)
        else:
            zero = []
            for s, d in p["supports"][b].items():
                zero += gens.normalized(d)[1]
        for x in by_bloc[b].ballots:
            if model == "name_Cumulative":
                if x.ranking:
                    return "cumulative", "cumulative ballot carries a ranking"
                sc = x.scores or {}
                if sum(sc.values()) != ex["num_votes"]:
                    return "cumulative", f"scores {dict(sc)} do not distribute exactly {ex['num_votes']} points"
                if any(c in zero or c not in cands for c in sc) or any(v <= 0 or v.denominator != 1 for v in sc.values()):
                    return "cumulative", f"scores {dict(sc)} give points to an unsupported candidate (zero support: {zero})"
                continue
            m = ranking_wellformed(x, cands)
            if m:
                return "ranking", m
            listed = [c for pos in x.ranking for c in pos]
            if model in COMPLETE:
                if sorted(listed) != sorted(cands):
                    return "complete", f"bloc {b}: ranking {vkit.canon_ranking(x.ranking)} does not list every candidate {cands}"
                zs = set(zero)
                for k, pos in enumerate(x.ranking):
                    if len(pos) > 1 and not (set(pos) == zs and k == len(x.ranking) - 1):
                        return "complete", f"bloc {b}: tied position {sorted(pos)} is not the final group of zero-support candidates {sorted(zs)}"
                    if len(pos) == 1 and next(iter(pos)) in zs and not (len(zs) == 1 and k == len(x.ranking) - 1):
                        return "complete", f"bloc {b}: zero-support candidate {sorted(pos)} ranked outside the final tied group"
            if model == "short_name_PlackettLuce":
                if len(listed) != ex["ballot_length"]:
                    return "length", f"ballot {vkit.canon_ranking(x.ranking)} lists {len(listed)} candidates, requested length {ex['ballot_length']}"
                for k, pos in enumerate(x.ranking):
                    if len(pos) > 1 and (k != len(x.ranking) - 1 or not set(pos) <= set(zero)):
                        return "length", f"tied position {sorted(pos)} is not a final group of zero-support candidates"
    return None, None


def run_case(i, tier):
    _TIER[0] = tier
    model, ref, N, ex = _get(i)
    cnt = collections.Counter()
    out = {"counters": cnt, "viols": []}
    p = params_of(ref)
    CH.grid = None
    try:
        fn, judge, pred = make_case(i, model, ref, N, ex, p)
    except SkipCase:
        cnt["skipped"] += 1
        return out
    npaths = 0
    bound = None
    try:
        it = chooser.explore(fn, max_paths=MAX_PATHS)
        paths = []
        for path in it:
            paths.append(path)
    except chooser.PathLimit:
        bound = 2
        cnt["deviation_bounded_cases"] += 1
        paths = list(chooser.explore(fn, max_paths=200000, deviation_bound=bound))
    finally:
        CH.grid = None
    seen = set()
    for path in paths:
        npaths += 1
        cnt["executions"] += 1
        if path.exc is not None:
            k = ("exception", type(path.exc).__name__)
            if k not in seen:
                seen.add(k)
                out["viols"].append(_viol("exception", model, i, f"{type(path.exc).__name__}: {path.exc}", path, path.exc, pred))
            continue
        kind, msg = judge(path.result)
        cnt["traces"] += 1
        cnt["transitions"] += N
        if kind and kind not in seen:
            seen.add(kind)
            out["viols"].append(_viol(kind, model, i, msg, path, None, pred))
    # by_bloc=False must return the same aggregate profile as by_bloc=True under the same random outcomes (slice of the cases)
    if model in BLOC_MODELS and bound is None and isinstance(i, int) and i % 4 == 0 and not out["viols"]:
        extra = dict(ex)
        if model == "CambridgeSampler":
            extra["path"] = gens.cambridge_table_path()

        def fn_flat():
            g = gens.build_generator(model, p, **extra)
            return gens.generate(model, g, N, False)

        flat = {}
        for path in chooser.explore(fn_flat, max_paths=MAX_PATHS):
            cnt["executions"] += 1
            flat[path.choices] = None if path.exc is not None else gens.profile_key(path.result)
        withb = {path.choices: (None if path.exc is not None else gens.profile_key(path.result[1])) for path in paths}
        if flat != withb:
            diff = [c for c in set(flat) | set(withb) if flat.get(c) != withb.get(c)][:1]
            out["viols"].append(_viol("by_bloc_flag", model, i,
                                      f"generate_profile(by_bloc=False) and the aggregate of by_bloc=True differ under the same random outcomes {diff}"))
        cnt["by_bloc_false_comparisons"] += 1
    cnt["paths"] += npaths
    cnt["states"] += 1
    if npaths > 1:
        cnt["nontrivial"] += 1
    if isinstance(i, int) and i % 257 == 0:
        out["sample"] = {"case": case_json(i), "paths": npaths, "deviation_bound": bound}
    return out


class SkipCase(Exception):
    pass


def make_case(i, model, ref, N, ex, p):
    from votekit import ballot_generator as bg

    pred = None
    if model in BLOC_MODELS:
        extra = dict(ex)
        if model == "CambridgeSampler":
            extra["path"] = gens.cambridge_table_path()
            if len(p["props"]) != 2:
                raise SkipCase()
        if model == "AlternatingCrossover" and len(p["props"]) != 2:
            raise SkipCase()
        if model in ("name_BradleyTerry_MCMC",):
            # the chain needs at least two supported candidates to propose a swap
            if any(len(gens.combined_interval(p, b)[0]) < 2 for b in p["props"]):
                pred = "single_supported_candidate"
        if model == "slate_BradleyTerry_MCMC":
            if any(sum(len(gens.normalized(d)[0]) for d in p["supports"][b].values()) < 2 for b in p["props"]):
                pred = "single_supported_candidate"

        def fn():
            g = gens.build_generator(model, p, **extra)
            return gens.generate(model, g, N, True)

        return fn, (lambda res: check_bloc_model(i, model, p, N, ex, res, None)), pred
    n = ref[1]
    cands = ["a", "b", "c"][:n]
    if model in ("ImpartialCulture", "ImpartialAnonymousCulture", "from_point"):
        def fn():
            if model == "from_point":
                pt = {"a": 0.5, "b": 0.25, "c": 0.25} if n == 3 else {"a": 0.75, "b": 0.25}
                g = bg.BallotSimplex.from_point(point=pt, candidates=cands)
            else:
                g = getattr(bg, model)(candidates=cands)
            return g.generate_profile(N)

        def judge(prof):
            m = weights_ok(prof, N)
            if m:
                return "size", m
            for b in prof.ballots:
                m = ranking_wellformed(b, cands)
                if m:
                    return "ranking", m
                if sorted(c for pos in b.ranking for c in pos) != sorted(cands) or any(len(pos) != 1 for pos in b.ranking):
                    return "complete", f"ranking {vkit.canon_ranking(b.ranking)} is not a complete untied ranking of {cands}"
            return None, None

        return fn, judge, None
    # spatial models
    def judge_spatial(res):
        prof, cpos, vpos = res
        m = weights_ok(prof, N)
        if m:
            return "size", m
        for b in prof.ballots:
            m = ranking_wellformed(b, cands)
            if m:
                return "ranking", m
            if sorted(c for pos in b.ranking for c in pos) != sorted(cands):
                return "complete", f"ranking {vkit.canon_ranking(b.ranking)} does not list every candidate"
        if sorted(cpos) != sorted(cands) or len(vpos) != N:
            return "positions", "returned position structures do not match candidates / voters"
        return None, None

    if model == "OneDimSpatial":
        def fn():
            CH.grid = (-1.0, 0.0, 1.0, 2.0)
            g = bg.OneDimSpatial(candidates=cands)
            return g.generate_profile(N)

        def judge1(prof):
            m = weights_ok(prof, N)
            if m:
                return "size", m
            for b in prof.ballots:
                if sorted(c for pos in b.ranking for c in pos) != sorted(cands):
                    return "complete", "incomplete ranking"
            return None, None

        return fn, judge1, None
    if model in ("Spatial", "ClusteredSpatial"):
        # the constructors probe their distributions; that happens outside the explored run (real RNG)
        if model == "Spatial":
            g = bg.Spatial(candidates=cands, voter_dist=np.random.uniform, voter_dist_kwargs={"low": 0.0, "high": 1.0, "size": 2},
                           candidate_dist=np.random.uniform, candidate_dist_kwargs={"low": 0.0, "high": 1.0, "size": 2})
        else:
            g = bg.ClusteredSpatial(candidates=cands, voter_dist=np.random.normal, voter_dist_kwargs={"scale": 1.0, "size": 2},
                                    candidate_dist=np.random.uniform, candidate_dist_kwargs={"low": 0.0, "high": 1.0, "size": 2})

        def fn():
            CH.grid = (0.0, 1.0)
            if model == "Spatial":
                return g.generate_profile(N)
            return g.generate_profile_with_dict({c: (1 if k < N else 0) for k, c in enumerate(cands)})

        return fn, judge_spatial, None
    if model in ("Spatial_default", "ClusteredSpatial_default"):
        def fn():
            CH.active = False  # default construction probes the real distributions
            g = bg.Spatial(candidates=cands) if model == "Spatial_default" else bg.ClusteredSpatial(candidates=cands)
            CH.active = True
            CH.grid = (0.0, 1.0)
            if model == "Spatial_default":
                return g.generate_profile(N)
            return g.generate_profile_with_dict({cands[0]: 1, cands[1]: 0})

        return fn, judge_spatial, "default_kwargs"
    raise ValueError(model)


def finalize(agg, tier):
    return {"coverage": {
        "exhaustive": agg["counters"].get("deviation_bounded_cases", 0) == 0,
        "deviation_bound_for_oversized_cases": 2,
        "rule": "one case = (generator, parameter set, N); every path of the RNG choice tree is executed and judged; nontrivial = cases with "
                "more than one path",
        "explanation": "states = (generator, parameters, N) cases; transitions = ballots generated; traces = complete generation runs judged",
    }}

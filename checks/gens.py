"""Shared machinery for the ballot-generator checks (C14, C16): parameter sets, construction
of the real generators, path exploration, Huntington-Hill reference, closed-form laws.
"""

from __future__ import annotations

import itertools
import math
import os
import pickle
from fractions import Fraction

from engine import chooser, vkit
from engine.chooser import CH

F = Fraction
VERIF = os.path.dirname(os.path.dirname(os.path.abspath(__file__)))


# ------------------------------------------------------------------------------------
# Huntington-Hill reference: the SET of apportionments over all resolutions of equal priorities
# ------------------------------------------------------------------------------------
def ref_hh(props, N):
    props = [F(p) for p in props]
    k = len(props)
    res = set()
    if N < k:
        # the N strongest parties receive one seat each (ties: any)
        order = sorted(range(k), key=lambda i: -props[i])
        if N == 0:
            return {tuple([0] * k)}
        cut = props[order[N - 1]]
        sure = [i for i in range(k) if props[i] > cut]
        tied = [i for i in range(k) if props[i] == cut]
        for extra in itertools.combinations(tied, N - len(sure)):
            a = [0] * k
            for i in sure + list(extra):
                a[i] = 1
            res.add(tuple(a))
        return res
    base = [1 if p > 0 else 0 for p in props]

    def rec(alloc, left):
        if left == 0:
            res.add(tuple(alloc))
            return
        # priority^2 = p^2 / (n (n+1))
        pri = {i: props[i] ** 2 / (alloc[i] * (alloc[i] + 1)) for i in range(k) if props[i] > 0}
        if not pri:
            res.add(tuple(alloc))
            return
        mx = max(pri.values())
        for i in [i for i, v in pri.items() if v == mx]:
            a2 = list(alloc)
            a2[i] += 1
            rec(a2, left - 1)

    rec(base, N - sum(base))
    return res


# ------------------------------------------------------------------------------------
# parameter sets
# ------------------------------------------------------------------------------------
SLATES = {"X": ["x1", "x2"], "Y": ["y1", "y2"]}


def interval_menu(size):
    if size == 1:
        return [(1.0,)]
    if size == 2:
        return [(0.2, 0.8), (1.0, 0.0), (0.5, 0.5)]
    if size == 3:
        return [(0.2, 0.3, 0.5), (0.5, 0.5, 0.0)]
    raise ValueError(size)


def two_bloc_params(tier):
    """Parameter dicts for the bloc-based models with blocs X and Y."""
    out = []
    sizes = [(1, 1), (2, 1), (1, 2), (2, 2)] if tier != "quick" else [(1, 1), (2, 1), (2, 2)]
    cohs = [1.0, 0.7, 0.5, 0.3, 0.0] if tier != "quick" else [1.0, 0.7, 0.3]
    props = [(0.5, 0.5), (0.7, 0.3), (1.0, 0.0)]
    for (a, b) in sizes:
        xs, ys = SLATES["X"][:a], SLATES["Y"][:b]
        for jx, ix in enumerate(interval_menu(a)):
            # the second bloc's view of slate X: the next entry of the menu, so that the two blocs can differ in how many
            # candidates of a slate they give zero support to
            ix_other = interval_menu(a)[(jx + 1) % len(interval_menu(a))]
            for iy in interval_menu(b)[:2]:
                for c in cohs:
                    for pr in (props if (a, b) == (2, 1) or tier != "quick" else props[:2]):
                        out.append({
                            "slates": {"X": xs, "Y": ys},
                            "supports": {"X": {"X": dict(zip(xs, ix)), "Y": dict(zip(ys, iy))},
                                         "Y": {"X": dict(zip(xs, ix_other)), "Y": dict(zip(ys, iy))}},
                            "cohesion": {"X": {"X": c, "Y": round(1 - c, 10)}, "Y": {"Y": 0.6, "X": 0.4}},
                            "props": {"X": pr[0], "Y": pr[1]},
                        })
    # the same mappings written with the interval keys in the opposite order to the slate lists (representation must not matter)
    extra = []
    for k, q in enumerate(out):
        if len(q["slates"]["X"]) == 2 and q["supports"]["X"]["X"]["x1"] != q["supports"]["X"]["X"]["x2"] and (tier != "quick" or k % 2 == 0):
            r = dict(q)
            r["reverse_keys"] = True
            extra.append(r)
    # the same parameters with the blocs listed in another order in cohesion_parameters / pref_intervals_by_bloc than in bloc_voter_prop
    for k, q in enumerate(out):
        if q["props"]["X"] not in (q["props"]["Y"],) and (tier != "quick" or k % 3 == 0):
            r = dict(q)
            r["reverse_bloc_dicts"] = True
            extra.append(r)
    # slate_to_candidates listing the blocs in the opposite order to bloc_voter_prop
    for k, q in enumerate(out):
        if tier != "quick" or k % 3 == 1:
            r = dict(q)
            r["reverse_slate_dict"] = True
            extra.append(r)
    return out + extra


def three_bloc_params(tier):
    """Three blocs X, Y, Z (name models and slate_PlackettLuce support any number of blocs)."""
    out = []
    for sizes in ((1, 1, 1), (2, 1, 1)):
        xs, ys, zs = ["x1", "x2"][: sizes[0]], ["y1"], ["z1"]
        ix = (0.3, 0.7) if sizes[0] == 2 else (1.0,)
        sup = lambda: {"X": dict(zip(xs, ix)), "Y": {"y1": 1.0}, "Z": {"z1": 1.0}}
        for props in ((0.5, 0.3, 0.2), (0.6, 0.4, 0.0)):
            out.append({
                "slates": {"X": xs, "Y": ys, "Z": zs},
                "supports": {"X": sup(), "Y": sup(), "Z": sup()},
                # inner dictionaries deliberately list the slates in different orders
                "cohesion": {"X": {"X": 0.6, "Y": 0.3, "Z": 0.1}, "Y": {"Y": 0.7, "Z": 0.1, "X": 0.2}, "Z": {"Z": 1.0, "X": 0.0, "Y": 0.0}},
                "props": {"X": props[0], "Y": props[1], "Z": props[2]},
            })
    return out


def one_bloc_params(tier):
    out = []
    for size in (2, 3):
        cs = ["x1", "x2", "x3"][:size]
        for iv in interval_menu(size):
            out.append({"slates": {"X": cs}, "supports": {"X": {"X": dict(zip(cs, iv))}}, "cohesion": {"X": {"X": 1.0}},
                        "props": {"X": 1.0}})
    return out


def mk_intervals(p):
    from votekit.pref_interval import PreferenceInterval as PI

    if p.get("reverse_keys"):
        return {b: {s: PI(dict(reversed(list(d.items())))) for s, d in row.items()} for b, row in p["supports"].items()}
    return {b: {s: PI(dict(d)) for s, d in row.items()} for b, row in p["supports"].items()}


def all_cands(p):
    return [c for s in p["slates"].values() for c in s]


def build_generator(model, p, **extra):
    from votekit import ballot_generator as bg

    common = dict(pref_intervals_by_bloc=mk_intervals(p), bloc_voter_prop=dict(p["props"]),
                  cohesion_parameters={b: dict(r) for b, r in p["cohesion"].items()})
    if p.get("reverse_bloc_dicts"):
        common["cohesion_parameters"] = dict(reversed(list(common["cohesion_parameters"].items())))
        common["pref_intervals_by_bloc"] = dict(reversed(list(common["pref_intervals_by_bloc"].items())))
    if model in ("name_PlackettLuce", "name_BradleyTerry", "name_BradleyTerry_MCMC"):
        cls = bg.name_PlackettLuce if model == "name_PlackettLuce" else bg.name_BradleyTerry
        return cls(candidates=all_cands(p), **common)
    if model == "short_name_PlackettLuce":
        return bg.short_name_PlackettLuce(ballot_length=extra["ballot_length"], candidates=all_cands(p), **common)
    if model == "name_Cumulative":
        return bg.name_Cumulative(num_votes=extra["num_votes"], candidates=all_cands(p), **common)
    s2c = {k: list(v) for k, v in p["slates"].items()}
    if p.get("reverse_slate_dict"):
        s2c = dict(reversed(list(s2c.items())))
    if model in ("slate_PlackettLuce",):
        return bg.slate_PlackettLuce(slate_to_candidates=s2c, **common)
    if model in ("slate_BradleyTerry", "slate_BradleyTerry_MCMC"):
        return bg.slate_BradleyTerry(slate_to_candidates=s2c, **common)
    if model == "AlternatingCrossover":
        return bg.AlternatingCrossover(slate_to_candidates=s2c, **common)
    if model == "CambridgeSampler":
        return bg.CambridgeSampler(slate_to_candidates=s2c, path=extra["path"], **common)
    raise ValueError(model)


def generate(model, gen, N, by_bloc):
    if model == "name_BradleyTerry_MCMC":
        return gen.generate_profile_MCMC(N, by_bloc=by_bloc)
    if model == "slate_BradleyTerry_MCMC":
        return gen.generate_profile(N, by_bloc=by_bloc, deterministic=False)
    return gen.generate_profile(N, by_bloc=by_bloc)


# small historical table for CambridgeSampler (custom `path`)
CAMBRIDGE_TABLE = {("W", "W", "C"): 3, ("W", "C"): 2, ("C", "W", "W"): 1, ("C", "C", "W"): 4}


def cambridge_table_path():
    d = os.path.join(VERIF, ".scratch")
    os.makedirs(d, exist_ok=True)
    path = os.path.join(d, f"cambridge-{os.getpid()}.p")
    with open(path, "wb") as f:
        pickle.dump(CAMBRIDGE_TABLE, f)
    return path


# ------------------------------------------------------------------------------------
# canonical ballots / profiles
# ------------------------------------------------------------------------------------
def ballot_key(b):
    r = tuple(tuple(sorted(str(c) for c in pos)) for pos in b.ranking) if b.ranking else None
    s = tuple(sorted((str(c), v) for c, v in b.scores.items())) if b.scores else None
    return (r, s)


def profile_key(p):
    d = {}
    for b in p.ballots:
        k = ballot_key(b)
        d[k] = d.get(k, F(0)) + b.weight
    return tuple(sorted(d.items(), key=repr))


# ------------------------------------------------------------------------------------
# closed-form laws (floats; the implementation works in floats)
# ------------------------------------------------------------------------------------
def normalized(d):
    tot = sum(d.values())
    return {c: v / tot for c, v in d.items() if v > 0}, [c for c, v in d.items() if v == 0]


def pl_law(interval, length=None):
    """Plackett-Luce over the keys of `interval` (already positive): dict ordered tuple -> prob."""
    cands = list(interval)
    L = len(cands) if length is None else length
    out = {}
    for perm in itertools.permutations(cands, L):
        p = 1.0
        rest = 1.0
        for c in perm:
            p *= interval[c] / rest
            rest -= interval[c]
        out[perm] = p
    return out


def combined_interval(p, bloc):
    """Cohesion-weighted combination of the bloc's intervals: ({cand: share}, zero cands)."""
    comb = {}
    zero = []
    for s, d in p["supports"][bloc].items():
        nz, z = normalized(d)
        zero += z
        share = p["cohesion"][bloc][s]
        for c, v in nz.items():
            if v * share > 0:
                comb[c] = v * share
            else:
                zero.append(c)
    tot = sum(comb.values())
    return {c: v / tot for c, v in comb.items()}, sorted(zero)


def with_zero_tail(order, zero):
    r = tuple((c,) for c in order)
    if zero:
        r = r + (tuple(sorted(zero)),)
    return r


def slate_type_law(p, bloc):
    """slate-PL ballot-type law: sequential cohesion-weighted slate draws, renormalised on exhaustion."""
    sizes = {}
    for s, d in p["supports"][bloc].items():
        nz, z = normalized(d)
        sizes[s] = len(nz)
    # zero-support candidates of any slate reduce that slate (slate_to_non_zero_candidates uses all zero cands of the bloc's intervals)
    coh = dict(p["cohesion"][bloc])
    out = {}

    def rec(prefix, left, prob):
        active = [s for s in left if left[s] > 0]
        if not active:
            out[tuple(prefix)] = out.get(tuple(prefix), 0.0) + prob
            return
        tot = sum(coh[s] for s in active)
        if tot == 0:
            # remaining slates have zero cohesion: uniform over the distinct arrangements of the remaining slots
            slots = [s for s in active for _ in range(left[s])]
            arr = set(itertools.permutations(slots))
            for a in arr:
                key = tuple(prefix) + a
                out[key] = out.get(key, 0.0) + prob / len(arr)
            return
        for s in active:
            if coh[s] == 0:
                continue
            l2 = dict(left)
            l2[s] -= 1
            rec(prefix + [s], l2, prob * coh[s] / tot)

    rec([], {s: n for s, n in sizes.items()}, 1.0)
    return out


def slate_bt_type_law(p, bloc):
    sizes = {}
    for s, d in p["supports"][bloc].items():
        sizes[s] = len(normalized(d)[0])
    blocs = list(p["supports"][bloc].keys())
    if len(blocs) == 1:
        return {tuple([bloc] * sizes[bloc]): 1.0}
    opp = [b for b in blocs if b != bloc][0]
    c = p["cohesion"][bloc][bloc]
    items = [bloc] * sizes[bloc] + [opp] * sizes[opp]
    tab = {}
    total = sizes[bloc] * sizes[opp]
    for t in set(itertools.permutations(items)):
        succ = sum(t[k + 1:].count(opp) for k, x in enumerate(t) if x == bloc)
        tab[t] = (c ** succ) * ((1 - c) ** (total - succ))
    s = sum(tab.values())
    return {k: v / s for k, v in tab.items()}


def fill_types(p, bloc, type_law):
    """Combine a ballot-type law with independent PL orders inside each slate: ballot law."""
    per_slate = {}
    zero = []
    for s, d in p["supports"][bloc].items():
        nz, z = normalized(d)
        zero += z
        per_slate[s] = pl_law(nz) if nz else {(): 1.0}
    out = {}
    slates = list(per_slate)
    for t, pt in type_law.items():
        if pt == 0:
            continue
        for combo in itertools.product(*[per_slate[s].items() for s in slates]):
            pr = pt
            orders = {}
            for s, (o, po) in zip(slates, combo):
                pr *= po
                orders[s] = list(o)
            rk = []
            for s in t:
                rk.append(orders[s].pop(0))
            key = (with_zero_tail(rk, zero), None)
            out[key] = out.get(key, 0.0) + pr
    return out


def bt_table(interval):
    tab = {}
    cs = list(interval)
    for perm in itertools.permutations(cs):
        pr = 1.0
        for a in range(len(perm)):
            for b in range(a + 1, len(perm)):
                pr *= interval[perm[a]] / (interval[perm[a]] + interval[perm[b]])
        tab[perm] = pr
    s = sum(tab.values())
    return {k: v / s for k, v in tab.items()}


def single_ballot_law(model, p, bloc, extra=None):
    """Reference law of ONE ballot cast by `bloc`: dict ballot key -> probability."""
    extra = extra or {}
    if model in ("name_PlackettLuce", "short_name_PlackettLuce"):
        iv, zero = combined_interval(p, bloc)
        n_total = len(all_cands(p))
        L = extra.get("ballot_length", n_total)
        if L <= len(iv):
            return {(tuple((c,) for c in o), None): pr for o, pr in pl_law(iv, L).items()}
        ntied = L - len(iv)
        out = {}
        for o, pr in pl_law(iv).items():
            for tied in itertools.combinations(sorted(zero), ntied):
                key = (tuple((c,) for c in o) + (tuple(tied),), None)
                out[key] = out.get(key, 0.0) + pr / math.comb(len(zero), ntied)
        return out
    if model == "name_BradleyTerry":
        iv, zero = combined_interval(p, bloc)
        return {(with_zero_tail(o, zero), None): pr for o, pr in bt_table(iv).items()}
    if model == "name_Cumulative":
        iv, zero = combined_interval(p, bloc)
        k = extra["num_votes"]
        out = {}
        cs = list(iv)
        for draw in itertools.product(cs, repeat=k):
            pr = 1.0
            for c in draw:
                pr *= iv[c]
            sc = {}
            for c in draw:
                sc[c] = sc.get(c, 0) + 1
            key = (None, tuple(sorted((c, F(v)) for c, v in sc.items())))
            out[key] = out.get(key, 0.0) + pr
        return out
    if model == "slate_PlackettLuce":
        return fill_types(p, bloc, slate_type_law(p, bloc))
    if model == "slate_BradleyTerry":
        return fill_types(p, bloc, slate_bt_type_law(p, bloc))
    raise ValueError(model)


def iid_multiset_law(law, n):
    """Law of the multiset of n i.i.d. ballots: dict sorted-tuple-of-(key,count) -> prob."""
    cur = {(): 1.0}
    for _ in range(n):
        nxt = {}
        for ms, pm in cur.items():
            d0 = dict(ms)
            for k, pk in law.items():
                if pk == 0:
                    continue
                d = dict(d0)
                d[k] = d.get(k, 0) + 1
                key = tuple(sorted(d.items(), key=repr))
                nxt[key] = nxt.get(key, 0.0) + pm * pk
        cur = nxt
    return cur


def combine_blocs(laws):
    """Independent bloc multisets added up."""
    cur = {(): 1.0}
    for law in laws:
        nxt = {}
        for ms, pm in cur.items():
            for ms2, p2 in law.items():
                d = dict(ms)
                for k, c in ms2:
                    d[k] = d.get(k, 0) + c
                key = tuple(sorted(d.items(), key=repr))
                nxt[key] = nxt.get(key, 0.0) + pm * p2
        cur = nxt
    return cur


def observed_law(fn, max_paths=20000):
    """Exact law of profile_key(fn()) over all paths.  Returns (law, npaths, exceptions)."""
    law = {}
    n = 0
    excs = []
    for path in chooser.explore_all(fn, max_paths=max_paths):
        n += 1
        if path.exc is not None:
            excs.append(path)
            continue
        k = path.result
        law[k] = law.get(k, 0.0) + float(path.prob)
    return law, n, excs


def law_key_from_profile(p):
    """Profile -> multiset key comparable with iid_multiset_law / combine_blocs."""
    d = {}
    for b in p.ballots:
        k = ballot_key(b)
        w = b.weight
        d[k] = d.get(k, 0) + (int(w) if w.denominator == 1 else w)
    return tuple(sorted(d.items(), key=repr))


def compare_laws(got, exp, tol=1e-9):
    keys = set(got) | set(exp)
    worst = None
    for k in keys:
        d = abs(got.get(k, 0.0) - exp.get(k, 0.0))
        if d > tol and (worst is None or d > worst[0]):
            worst = (d, k, got.get(k, 0.0), exp.get(k, 0.0))
    return worst

"""C07 -- STV meets Droop proportionality for solid coalitions; IRV majority criterion.

X1: every outcome of every random tiebreak and random transfer; axiom oracle that shares
nothing with the implementation but the ballots.
"""

from __future__ import annotations

import collections
import itertools
import math
from fractions import Fraction

from engine import chooser, families as fam, refs, vkit
from . import common

ID = "C07"
LEVEL = "model_checking"
CHUNK = 4
F = Fraction
_CASES = None


def build_cases(tier, seed):
    global _CASES
    c3 = fam.cands(3)
    R3 = fam.rank_family(3)
    cs = []
    if tier == "quick":
        cs += [("int", c) for c in fam.prof_list(R3, 3, (1, 2), c3)]
        c4 = fam.cands(4)
        pb = fam.perm_family(4) + fam.bullet_family(4)
        cs += [("int", c) for c in fam.prof_list(pb, 2, (1, 2), c4)]
        cs += [("rat", c) for c in fam.prof_list(R3, 2, (F(1, 2), F(3, 2), F(7, 2)), c3)]
        famtxt = "Prof(Rank(3),3,{1,2}) + Prof(Perm(4)+Bullet(4),2,{1,2}) + Prof(Rank(3),2,{1/2,3/2,7/2})"
    else:
        cs += [("int", c) for c in fam.prof_list(R3, 3, (1, 2, 3), c3)]
        c4 = fam.cands(4)
        cs += [("int", c) for c in fam.prof_list(fam.rank_family(4), 2, (1, 2, 3), c4)]
        pb = fam.perm_family(4) + fam.bullet_family(4)
        cs += [("int", c) for c in fam.prof_list(pb, 3, (1, 2), c4)]
        cs += [("rat", c) for c in fam.prof_list(R3, 2, (F(1, 2), F(3, 2)), c3)]
        famtxt = ("Prof(Rank(3),3,{1,2,3}) + Prof(Rank(4),2,{1,2,3}) + Prof(Perm(4)+Bullet(4),3,{1,2}) + "
                  "Prof(Rank(3),2,{1/2,3/2})")
    # uncondensed variants: a ranking repeated on another ballot with a different weight
    for (cands_, bl) in fam.prof_list(R3, 2, (1, 2), c3)[:: (4 if tier == "quick" else 1)]:
        cs.append(("int", (cands_, bl + ((bl[0][0], 3),))))
        cs.append(("int", (cands_, ((bl[-1][0], 2),) + bl)))
    famtxt += " + uncondensed variants of Prof(Rank(3),2,{1,2}) (a ranking repeated on another ballot)"
    _CASES = cs
    meta = {
        "family": famtxt + " x m in 1..n x simultaneous in {T,F} x transfer in {fractional, random (integer weights)} "
                  "x quota=droop x tiebreak=random x all RNG paths x all non-empty proper candidate subsets S; "
                  "IRV on the same profiles with tiebreak=random",
        "assumptions": ["small scope n<=3 (quick) / n<=4 (thorough)",
                        "runs that raise are judged by C01, not here (counted as skipped_exception)"],
    }
    return list(range(len(cs))), meta


def _get(i):
    return _CASES[i] if isinstance(i, int) else i


def case_json(i):
    return fam.case_to_json(_get(i)[1])


def case_from_json(j):
    c = fam.case_from_json(j)
    tag = "int" if all(F(w).denominator == 1 for _, w in c[1]) else "rat"
    return (tag, c)


witness_case = case_from_json


def _viol(kind, rule, i, kw, msg, path):
    return {"sig": {"kind": kind, "rule": rule}, "msg": f"{rule} {kw} on {case_json(i)}: {msg}",
            "case": case_json(i), "config": vkit.jsonable(kw), "choices": list(path.choices),
            "values": vkit.jsonable(path.values)}


def run_case(i, tier):
    tag, case = _get(i)
    cs = case[0]
    n = len(cs)
    cnt = collections.Counter()
    out = {"counters": cnt, "viols": []}
    N = sum((F(w) for _, w in case[1]), F(0))
    subsets = [S for r in range(1, n) for S in itertools.combinations(cs, r)]
    solid = {S: refs.solid_weight(case, S) for S in subsets}
    seen_nontrivial = set()
    for rule in ("STV", "STVrandom"):
        if rule == "STVrandom" and tag != "int":
            continue
        for m in range(1, n + 1):
            thr = math.floor(N / (m + 1)) + 1
            need = {}
            for S in subsets:
                k = math.floor(solid[S] / thr)
                if k >= 1:
                    need[S] = min(k, len(S), m)
                    seen_nontrivial.add((m, S))
            for sim in (True, False):
                vrule, kw, tr = common.stv_ctor(rule, m, "droop", sim, "random")
                fn = vkit.election_fn(vrule, case, kw)
                for path in chooser.explore(fn, max_paths=50000):
                    cnt["executions"] += 1
                    cnt["paths"] += 1
                    if path.exc is not None:
                        cnt["skipped_exception"] += 1
                        continue
                    e = path.result
                    if e.threshold != thr:
                        out["viols"].append(_viol("threshold", rule, i, kw,
                                                  f"threshold {e.threshold} is not the Droop quota {thr}", path))
                        continue
                    el = set(vkit.flat(e.get_elected()))
                    cnt["traces"] += 1
                    cnt["transitions"] += len(e.election_states) - 1
                    for S, q in need.items():
                        cnt["obligations"] += 1
                        if len(el & set(S)) < q:
                            out["viols"].append(_viol(
                                "droop_proportionality", rule, i, kw,
                                f"coalition {list(S)} is solidly supported by weight {solid[S]} >= {q} x threshold {thr} "
                                f"but only {sorted(el & set(S))} of it are among the elected {sorted(el)}", path))
                            break
    # IRV majority
    thr1 = math.floor(N / 2) + 1
    fp = refs.ref_fpv(case)
    maj = [c for c in cs if fp[c] >= thr1]
    fn = vkit.election_fn("IRV", case, dict(quota="droop", tiebreak="random"))
    for path in chooser.explore(fn, max_paths=50000):
        cnt["executions"] += 1
        if path.exc is not None:
            cnt["skipped_exception"] += 1
            continue
        cnt["traces"] += 1
        if maj:
            el = vkit.flat(path.result.get_elected())
            cnt["obligations"] += 1
            if el != maj:
                out["viols"].append(_viol("irv_majority", "IRV", i, {"quota": "droop"},
                                          f"{maj[0]} has first-place weight {fp[maj[0]]} >= threshold {thr1} but IRV elected {el}", path))
    if maj:
        seen_nontrivial.add(("irv", tuple(maj)))
    cnt["nontrivial"] += len(seen_nontrivial)
    cnt["states"] += 1
    if isinstance(i, int) and i % 401 == 0:
        out["sample"] = {"profile": case_json(i), "coalitions_with_k>=1": [[m, list(S)] for m, S in sorted(seen_nontrivial, key=repr)][:6]}
    return out


def finalize(agg, tier):
    return {"coverage": {
        "exhaustive": True,
        "rule": "one case = one profile, all m / modes / transfers / paths; nontrivial = distinct (profile, m, S) with "
                "floor(solid weight / threshold) >= 1 (an obligation that actually constrains the winners), plus profiles "
                "with an IRV majority candidate",
        "explanation": "states = profiles; transitions = count rounds executed; traces = complete runs judged; "
                       "obligations = (run, coalition) pairs checked",
    }}

"""C02 -- each STV / IRV / SequentialRCV round is a legal step of the documented count.

X3 lock-step refinement against refs.legal_steps on every path of the X1 choice tree
(every tiebreak / random-transfer outcome), plus set equality of the implementation's
and the reference's complete observable traces.
"""

from __future__ import annotations

import math
from fractions import Fraction

from engine import chooser, families as fam, lockstep, refs, vkit
from engine.refs import NEEDS_TB
from . import common

ID = "C02"
LEVEL = "model_checking"
CHUNK = 2

_PROFILES = None


def build_cases(tier, seed):
    global _PROFILES
    _PROFILES = common.rank_profiles(tier)
    if tier == "quick":
        # a slice of four-candidate profiles (two candidates can reach quota in one round and feed each other)
        c4 = fam.cands(4)
        pb = fam.perm_family(4) + fam.bullet_family(4)
        _PROFILES += [("int", c) for c in fam.prof_list(pb, 2, (1, 2), c4)[::6]]
    meta = {
        "family": common.family_text(tier) + (" + every 6th of Prof(Perm(4)+Bullet(4),2,{1,2})" if tier == "quick" else "")
        + " x {STV fractional, STV random transfer (integer weights), SequentialRCV, IRV}"
        " x m in 1..n x quota in {droop,hare} x simultaneous in {T,F} x tiebreak in"
        " {None,random,borda,first_place} x all paths of the scripted RNG",
        "assumptions": [
            "small-scope: n<=3 (quick) / n<=4 (thorough), K<=3 distinct ballot types",
            "reference model engine/refs.py legal_steps is the reading of the documented count",
            "laws of random.sample trusted (exhaustive over its outcomes, multiset symmetry reduction"
            " over identical unit ballots)",
            "states in simultaneous mode with more candidates at quota than seats left, and threshold 0,"
            " are outside the property and skipped (counted as skipped_out_of_domain)",
        ],
    }
    return list(range(len(_PROFILES))), meta


def _get(i):
    return _PROFILES[i] if isinstance(i, int) else i


def case_json(i):
    tag, case = _get(i)
    return fam.case_to_json(case)


def case_from_json(j):
    case = fam.case_from_json(j["profile"] if "profile" in j else j)
    tag = "int" if all(Fraction(w).denominator == 1 for _, w in case[1]) else "rat"
    return (tag, case)


def witness_case(w):
    return case_from_json(w)


def _viol(kind, rule, cfgd, case, msg, path=None, pred=None, exc=None):
    sig = {"kind": kind, "rule": rule}
    if exc is not None:
        sig["exc"] = type(exc).__name__
        sig["where"] = vkit.exc_where(exc)
    if pred:
        sig["pred"] = pred
    d = {
        "sig": sig,
        "msg": f"{rule} {cfgd} on {fam.case_to_json(case)}: {msg}",
        "case": {"profile": fam.case_to_json(case)},
        "config": vkit.jsonable(cfgd),
    }
    if path is not None:
        d["choices"] = list(path.choices)
        d["values"] = vkit.jsonable(path.values)
    return d


def check_config(case, rule, m, q, sim, tb, out, recheck=False):
    vrule, kwargs, rtransfer = common.stv_ctor(rule, m, q, sim, tb)
    cfg = refs.STVConfig(m, q, sim, tb, rtransfer, case)
    cnt = out["counters"]
    fn = vkit.election_fn(vrule, case, kwargs)
    impl_traces = set()
    states_seen = set()
    skipped = False
    npaths = 0
    for path in chooser.explore(fn, max_paths=50000):
        npaths += 1
        cnt["executions"] += 1
        if path.exc is not None:
            states = getattr(path.exc, "_vk_partial", ())
        else:
            e = path.result
            states = vkit.canon_election(e)
            # (1) the threshold
            exp = cfg.thr
            if exp <= 0:
                pass  # Hare quota with N < m: threshold 0 is outside the property (counted below)
            elif e.threshold != exp:
                out["viols"].append(_viol("threshold", rule, kwargs, case,
                                          f"threshold {e.threshold} != documented quota {exp}", path))
            else:
                for x in (Fraction(1), cfg.N + 7, Fraction(5, 2)):
                    if e.get_threshold(x) != exp:
                        out["viols"].append(_viol("threshold", rule, kwargs, case,
                                                  f"get_threshold({x}) = {e.get_threshold(x)} changed from {exp}", path))
                        break
        v = lockstep.follow(states, path.exc, case, cfg)
        cnt["transitions"] += v.transitions
        states_seen |= v.ref_states
        if v.status == "out_of_domain":
            cnt["skipped_out_of_domain"] += 1
            skipped = True
            continue
        if v.status == "violation":
            kind = "illegal_step" if path.exc is None else "exception"
            out["viols"].append(_viol(kind, rule, kwargs, case, v.msg, path, exc=path.exc))
            continue
        cnt["traces"] += 1
        impl_traces.add(v.trace)
        if recheck and npaths % 16 == 1:
            p2 = chooser.run_once(fn, path.choices)
            s2 = getattr(p2.exc, "_vk_partial", ()) if p2.exc is not None else vkit.canon_election(p2.result)
            if s2 != states or type(p2.exc) is not type(path.exc):
                raise chooser.ReplayDivergence(f"replay of {path.choices} differs")
            cnt["replay_determinism_checks"] += 1
    cnt["paths"] += npaths
    cnt["max_paths_per_case"] = 0  # placeholder so that the key exists
    out["maxpaths"] = max(out.get("maxpaths", 0), npaths)
    # (3) set equality of complete traces
    comp, ood = lockstep.ref_trace_set(case, cfg)
    impl_in = {t for t in impl_traces if not lockstep.has_ood_prefix(t, ood)}
    ref_in = {t for t in comp if not lockstep.has_ood_prefix(t, ood)}
    if not any(v["sig"]["kind"] in ("illegal_step", "exception") and v.get("config") == vkit.jsonable(kwargs)
               for v in out["viols"][-npaths:]):
        missing = ref_in - impl_in
        extra = impl_in - ref_in
        if missing:
            ex = sorted(missing, key=repr)[0]
            out["viols"].append(_viol("unreachable_legal_branch", rule, kwargs, case,
                                      f"{len(missing)} legal trace(s) of the documented count are never produced, e.g. {vkit.jsonable(ex)}"))
        if extra:
            ex = sorted(extra, key=repr)[0]
            out["viols"].append(_viol("illegal_trace", rule, kwargs, case,
                                      f"{len(extra)} trace(s) are not traces of the documented count, e.g. {vkit.jsonable(ex)}"))
    cnt["states"] += len(states_seen)
    if npaths > 1:
        cnt["nontrivial"] += 1
    cnt["configs"] += 1
    return npaths


def run_case(i, tier):
    tag, case = _get(i)
    n = len(case[0])
    out = {"counters": {}, "viols": []}
    import collections

    out["counters"] = collections.Counter()
    k = 0
    for (rule, m, q, sim, tb) in common.stv_configs(n, tag):
        k += 1
        check_config(case, rule, m, q, sim, tb, out, recheck=(k % 8 == 0))
    out["counters"].pop("max_paths_per_case", None)
    out["sets"] = {}
    if isinstance(i, int) and i % 97 == 0:
        out["sample"] = {"profile": fam.case_to_json(case), "configs": k,
                         "max_paths_in_one_config": out.get("maxpaths", 0)}
    return out


def finalize(agg, tier):
    c = agg["counters"]
    return {
        "coverage": {
            "exhaustive": True,
            "rule": "one case = one profile; every configuration of the family is run on it and every path "
                    "of its choice tree is explored; nontrivial = (profile, configuration) pairs with more than one path",
            "explanation": "states = distinct reference count-states reached per configuration, summed; "
                           "transitions = implementation rounds matched to a reference step; "
                           "traces = implementation runs (paths) validated round by round",
        }
    }

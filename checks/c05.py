"""C05 -- score-ballot elections enforce their limits and elect the top m totals.

X4: bounded-exhaustive score profiles (including ballots violating exactly one limit by the
smallest margin) x every rule class and parameter set; X1 for tiebreak='random'.
"""

from __future__ import annotations

import collections
import itertools
from fractions import Fraction

from engine import chooser, families as fam, refs, vkit

ID = "C05"
LEVEL = "exploration"
CHUNK = 16
F = Fraction
_CASES = None

EPS = F(1, 10**6)
S_VALUES = (0, F(1, 2), 1, F(3, 2), 2, 3, F(-1, 2), 1 + EPS, 2 + EPS)


def score_ballots(n, values):
    cs = fam.cands(n)
    return [tuple(zip(cs, vals)) for vals in itertools.product(values, repeat=n)]


def build_cases(tier, seed):
    global _CASES
    cs = []
    s2 = score_ballots(2, S_VALUES)
    s3 = score_ballots(3, S_VALUES if tier != "quick" else (0, F(1, 2), 1, 2, F(-1, 2), 1 + EPS))
    sub2 = score_ballots(2, (0, 1, 2))
    sub3 = [b for b in score_ballots(3, (0, 1)) if any(v for _, v in b)][:12]
    ws = (1, 2, F(1, 2))
    c2, c3 = fam.cands(2), fam.cands(3)
    for b in s2:
        for w in ws:
            cs.append((c2, ((b, w),)))
    for a in s2:
        for b in (s2 if tier != "quick" else sub2):
            cs.append((c2, ((a, 1), (b, 2))))
    for b in s3:
        for w in ws:
            cs.append((c3, ((b, w),)))
    for a in s3:
        for b in sub3:
            cs.append((c3, ((a, 2), (b, 1))))
    # one arbitrary ballot first / middle / last among valid ones
    v1 = ((c3[0], 1),)
    v2 = ((c3[1], 1), (c3[2], F(1, 2)))
    for x in s3:
        cs.append((c3, ((x, 1), (v1, 1), (v2, 1))))
        cs.append((c3, ((v1, 1), (x, 1), (v2, 1))))
        cs.append((c3, ((v1, 1), (v2, 1), (x, 1))))
    # exact ties that exist only in exact arithmetic: 1/10 + 1/5 against 3/10 (weights and scores)
    for perm in itertools.permutations(((((c3[0], 1),), F(1, 10)), (((c3[0], 1),), F(1, 5)), (((c3[1], 1),), F(3, 10)))):
        cs.append((c3, perm))
    for perm in itertools.permutations(((((c3[0], F(1, 10)),), 1), (((c3[0], F(1, 5)),), 1), (((c3[2], F(3, 10)),), 1))):
        cs.append((c3, perm))
    # a ballot that carries a ranking but no scores, among scored ones
    cs.append((c3, (("RANKED", 1), (v1, 1))))
    cs.append((c3, ((v1, 1), ("RANKED", 1))))
    cs.append((c3, (("RANKED", 1),)))
    _CASES = cs
    meta = {
        "family": "score ballots over 2 and 3 candidates with values from {0,1/2,1,3/2,2,3,-1/2,1+1e-6,2+1e-6}: all single ballots x weights "
                  "{1,2,1/2}, pairs, triples placing one arbitrary ballot first/middle/last among valid ones, ballots without scores; "
                  "x Rating(L), Approval, Limited(k), Cumulative, BlocPlurality(k), GeneralRating(L,k) x m x tiebreak in {None,random}",
        "assumptions": ["small scope: n<=3 candidates, <=3 ballots", "m outside 1..n is judged by C20"],
    }
    return list(range(len(cs))), meta


def _get(i):
    return _CASES[i] if isinstance(i, int) else i


def case_json(i):
    cs, bl = _get(i)
    return {"candidates": list(cs),
            "ballots": [{"scores": ("RANKED" if sc == "RANKED" else {c: str(v) for c, v in sc}), "weight": str(w)} for sc, w in bl]}


def case_from_json(j):
    return (tuple(j["candidates"]),
            tuple((("RANKED" if b["scores"] == "RANKED" else tuple((c, fam._num(v)) for c, v in b["scores"].items())),
                   fam._num(b["weight"])) for b in j["ballots"]))


witness_case = case_from_json


def configs(n):
    for m in range(1, n + 1):
        for tb in (None, "random"):
            for L in (1, 2):
                yield "Rating", dict(m=m, L=L, tiebreak=tb), L, None
            yield "Approval", dict(m=m, tiebreak=tb), 1, None
            for k in sorted({1, m, F(3, 2)} if m >= 2 else {1}):
                if k <= m:
                    yield "Limited", dict(m=m, k=k, tiebreak=tb), k, k
            yield "Cumulative", dict(m=m, tiebreak=tb), m, m
            for k in (None, 1, 2):
                yield "BlocPlurality", dict(m=m, k=k, tiebreak=tb), 1, (k or m)
            for L, k in ((1, None), (1, 2), (2, 2), (F(1, 2), 1), (2, 3), (1, F(3, 2))):
                yield "GeneralRating", dict(m=m, L=L, k=k, tiebreak=tb), L, k


def ballot_valid(sc, L, k):
    if sc == "RANKED":
        return False
    vals = [F(v) for _, v in sc if v != 0]
    if not vals:
        return False
    if any(v < 0 for v in vals):
        return False
    if any(v > L for v in vals):
        return False
    if k is not None and sum(vals) > k:
        return False
    return True


def _viol(kind, rule, kw, i, msg, path=None):
    d = {"sig": {"kind": kind, "rule": rule}, "msg": f"{rule} {kw} on {case_json(i)}: {msg}",
         "case": case_json(i), "config": vkit.jsonable(kw)}
    if path is not None:
        d["choices"] = list(path.choices)
    return d


def run_case(i, tier):
    from votekit.ballot import Ballot
    from votekit.pref_profile import PreferenceProfile
    from votekit.elections import GeneralRating

    cs, bl = _get(i)
    n = len(cs)
    cnt = collections.Counter()
    out = {"counters": cnt, "viols": []}
    ballots = []
    for sc, w in bl:
        if sc == "RANKED":
            ballots.append(Ballot(ranking=(frozenset({cs[0]}),), weight=w))
        else:
            ballots.append(Ballot(scores=dict(sc), weight=w))
    prof = PreferenceProfile(ballots=tuple(ballots), candidates=tuple(cs))
    tot = {c: F(0) for c in cs}
    for sc, w in bl:
        if sc != "RANKED":
            for c, v in sc:
                tot[c] += F(v) * F(w)
    nontrivial = False
    for rule, kw, L, k in configs(n):
        valid = all(ballot_valid(sc, L, k) for sc, _ in bl)
        nviol = sum(1 for sc, _ in bl if not ballot_valid(sc, L, k))
        if rule == "GeneralRating":
            fn = lambda: GeneralRating(prof, **kw)
        else:
            fn = lambda: vkit.make_election(rule, prof, kw)
        m = kw["m"]
        t = refs.TopM(tot, m)
        for p in chooser.explore(fn):
            cnt["executions"] += 1
            if not valid:
                if not isinstance(p.exc, TypeError):
                    what = "accepted" if p.exc is None else f"raised {type(p.exc).__name__}: {p.exc}"
                    out["viols"].append(_viol("not_rejected", rule, kw, i,
                                              f"profile violates the limits (L={L}, k={k}) but was {what} instead of TypeError", p))
                else:
                    cnt["rejections_checked"] += 1
                    if nviol == 1:
                        nontrivial = True
                continue
            if isinstance(p.exc, TypeError):
                out["viols"].append(_viol("wrongly_rejected", rule, kw, i, f"valid profile (L={L}, k={k}) rejected: {p.exc}", p))
                continue
            must = t.straddles and kw["tiebreak"] is None
            if p.exc is not None:
                if not (isinstance(p.exc, ValueError) and must):
                    out["viols"].append(_viol("exception", rule, kw, i, f"{type(p.exc).__name__}: {p.exc}", p))
                continue
            if must:
                out["viols"].append(_viol("tie_not_refused", rule, kw, i, "boundary tie with tiebreak None returned a result", p))
                continue
            e = p.result
            cnt["accepted_runs"] += 1
            if dict(e.election_states[0].scores) != tot:
                out["viols"].append(_viol("totals", rule, kw, i,
                                          f"round-0 totals {vkit.jsonable(dict(e.election_states[0].scores))} != sum of weight x score {vkit.jsonable(tot)}", p))
                continue
            el = vkit.flat(e.get_elected())
            if not t.legal(el):
                out["viols"].append(_viol("winners", rule, kw, i, f"elected {el} with totals {vkit.jsonable(tot)}", p))
    if nontrivial:
        cnt["nontrivial"] += 1
    cnt["states"] += 1
    if isinstance(i, int) and i % 503 == 0:
        out["sample"] = case_json(i)
    return out


def finalize(agg, tier):
    return {"coverage": {
        "exhaustive": True,
        "rule": "one case = one score profile run through every rule class / parameter set; nontrivial = distinct profiles that "
                "violate the limits of some configuration in exactly one ballot (boundary rejections)",
    }}

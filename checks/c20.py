"""C20 -- invalid requests are rejected up front with the documented error.

X4 over a finite decision table: one generator per documented precondition producing
inputs that violate exactly that precondition (smallest margin and grossly, offending
ballot first / middle / last), for every rule / generator / helper that documents it, plus
the boundary accept cases.
"""

from __future__ import annotations

import collections
import itertools
from fractions import Fraction

from engine import chooser, families as fam, vkit

ID = "C20"
LEVEL = "exploration"
CHUNK = 40
F = Fraction
_CASES = None
_TABLE = None

RANK_RULES = ["STV", "IRV", "SequentialRCV", "Plurality", "SNTV", "Borda", "TopTwo", "Alaska", "DominatingSets",
              "CondoBorda", "RandomDictator", "BoostedRandomDictator", "PluralityVeto"]
SCORE_RULES = ["Rating", "Limited", "Cumulative", "Approval", "BlocPlurality", "GeneralRating"]
SEAT_RULES = ["STV", "SequentialRCV", "Plurality", "SNTV", "Borda", "CondoBorda", "RandomDictator",
              "BoostedRandomDictator", "PluralityVeto", "Rating", "Limited", "Cumulative", "Approval", "BlocPlurality",
              "GeneralRating"]


def _E():
    from votekit import elections as E

    return E


def default_kwargs(rule, m=1):
    if rule in ("IRV", "TopTwo", "DominatingSets"):
        return {}
    if rule == "Alaska":
        return {"m_1": 2, "m_2": m}
    if rule in ("RandomDictator", "BoostedRandomDictator", "PluralityVeto"):
        return {"m": m}
    if rule == "Limited":
        return {"m": m, "k": 1}
    return {"m": m}


def build_table():
    from votekit.ballot import Ballot
    from votekit.pref_profile import PreferenceProfile
    from votekit.pref_interval import PreferenceInterval as PI, combine_preference_intervals
    from votekit import ballot_generator as bg
    from votekit.utils import score_profile_from_rankings, validate_score_vector
    from votekit.elections import fractional_transfer, random_transfer

    E = _E()
    T = []  # (label, thunk, expected exception class or None for accept)

    def add(label, thunk, exp):
        T.append((label, thunk, exp))

    cs = ("A", "B", "C")
    # base profiles without any tie on first-place votes / totals, valid for every rule and parameter set used below
    good = [Ballot(ranking=({"A"}, {"B"}, {"C"}), weight=4), Ballot(ranking=({"B"}, {"C"}), weight=2),
            Ballot(ranking=({"C"}, {"A"}, {"B"}), weight=1)]
    sgood = [Ballot(scores={"A": 1}, weight=4), Ballot(scores={"B": 1}, weight=2), Ballot(scores={"C": 1}, weight=1)]

    def prof(bl, cands=cs):
        return PreferenceProfile(ballots=tuple(bl), candidates=cands)

    def placed(base, bad):
        yield "first", [bad] + base
        yield "middle", base[:1] + [bad] + base[1:]
        yield "last", base + [bad]
        yield "only", [bad]

    def ctor(rule, p, **kw):
        return lambda: getattr(E, rule)(p, **kw)

    # A. ranking rules: a ballot without ranking
    for rule in RANK_RULES:
        for badname, bad in (("scores-only", Ballot(scores={"A": 1})), ("empty", Ballot())):
            for pos, bl in placed(good, bad):
                add(f"A:{rule}:no-ranking({badname}):{pos}", ctor(rule, prof(bl), **default_kwargs(rule)), TypeError)
        add(f"A:{rule}:valid-accepted", ctor(rule, prof(good), **default_kwargs(rule)), None)
    # B. tied positions in the STV family
    tied = Ballot(ranking=({"A", "B"}, {"C"}), weight=1)
    tied_last = Ballot(ranking=({"A"}, {"B", "C"}), weight=1)
    for rule in ("STV", "IRV", "SequentialRCV", "Alaska"):
        for tname, tb in (("tie-first", tied), ("tie-last", tied_last)):
            for pos, bl in placed(good, tb):
                kw = default_kwargs(rule)
                if rule == "Alaska":
                    kw = {"m_1": 3, "m_2": 1}
                add(f"B:{rule}:{tname}:{pos}", ctor(rule, prof(bl), **kw), TypeError)
    # C. non-integer weights
    for w in (F(3, 2), F(1, 2), F(10**6 + 1, 10**6)):
        for pos, bl in placed(good, Ballot(ranking=({"A"}, {"B"}), weight=w)):
            add(f"C:PluralityVeto:weight {w}:{pos}", ctor("PluralityVeto", prof(bl), m=1), TypeError)
            add(f"C:random_transfer:weight {w}:{pos}", (lambda bl=bl: random_transfer("A", 4, bl, 2)), TypeError)
            add(f"C:STV(random_transfer):weight {w}:{pos}",
                (lambda bl=bl: E.STV(prof(bl + [Ballot(ranking=({"A"},), weight=5)]), m=2, transfer=random_transfer)), TypeError)
    add("C:PluralityVeto:integer weights accepted", ctor("PluralityVeto", prof(good), m=1), None)
    for pos, bl in placed(good, Ballot(scores={"A": 1})):
        add(f"C:fractional_transfer:no-ranking:{pos}", (lambda bl=bl: fractional_transfer("A", 4, bl, 2)), TypeError)
        add(f"C:random_transfer:no-ranking:{pos}", (lambda bl=bl: random_transfer("A", 4, bl, 2)), TypeError)
    # D. missing scores for score rules
    for rule in SCORE_RULES:
        for badname, bad in (("ranking-only", Ballot(ranking=({"A"},))), ("empty", Ballot()), ("zero-scores", Ballot(scores={"A": 0}))):
            for pos, bl in placed(sgood, bad):
                add(f"D:{rule}:{badname}:{pos}", ctor(rule, prof(bl), **default_kwargs(rule)), TypeError)
        add(f"D:{rule}:valid-accepted", ctor(rule, prof(sgood), **default_kwargs(rule)), None)
    # E. seat counts
    for rule in SEAT_RULES:
        base = sgood if rule in SCORE_RULES else good
        for m in (0, -1, 4, 7):
            kw = default_kwargs(rule, m)
            if rule == "Limited":
                kw = {"m": m, "k": 1}
            add(f"E:{rule}:m={m}", ctor(rule, prof(base), **kw), ValueError)
        kw = default_kwargs(rule, 3)
        tb = {} if rule in ("CondoBorda", "RandomDictator", "BoostedRandomDictator", "PluralityVeto") else {"tiebreak": "random"}
        add(f"E:{rule}:m=n accepted", ctor(rule, prof(base), **kw, **tb), None)
    # F. Alaska stage sizes
    for m1, m2 in ((1, 2), (2, 3), (0, 0), (0, 1), (-1, -1), (2, 0), (2, -1), (4, 1), (4, 4)):
        add(f"F:Alaska:m_1={m1},m_2={m2}", ctor("Alaska", prof(good), m_1=m1, m_2=m2, tiebreak="random"), ValueError)
    for m1, m2 in ((1, 1), (2, 2), (3, 3), (3, 1)):
        add(f"F:Alaska:m_1={m1},m_2={m2} accepted", ctor("Alaska", prof(good), m_1=m1, m_2=m2, tiebreak="random"), None)
    # G. score vectors
    bad_vecs = [[-1], [1, -1], [3, 2, -0.000001], [1, 2], [2, 1, 1.000001], [0, 0, 1], [F(1, 2), F(2, 3)], [1, 0, 0, 1],
                [-F(1, 10**6), -F(1, 10**6)]]
    for v in bad_vecs:
        add(f"G:Borda:vector {v}", ctor("Borda", prof(good), m=1, score_vector=v), ValueError)
        add(f"G:score_profile_from_rankings:vector {v}", (lambda v=v: score_profile_from_rankings(prof(good), v)), ValueError)
        add(f"G:validate_score_vector:vector {v}", (lambda v=v: validate_score_vector(v)), ValueError)
    for v in ([3, 2, 1], [1, 1, 1], [0], [2, 2, 0, 0], [F(1, 2), F(1, 2)], [1.5, 1.5, 0.0]):
        add(f"G:Borda:vector {v} accepted", ctor("Borda", prof(good), m=1, score_vector=v, tiebreak="random"), None)
        add(f"G:score_profile_from_rankings:vector {v} accepted", (lambda v=v: score_profile_from_rankings(prof(good), v)), None)
    # H. limits and budgets
    for L in (0, -1, -F(1, 10**6)):
        add(f"H:GeneralRating:L={L}", ctor("GeneralRating", prof(sgood), m=1, L=L), ValueError)
        add(f"H:Rating:L={L}", ctor("Rating", prof(sgood), m=1, L=L), ValueError)
    for k in (0, -1, -F(1, 2)):
        add(f"H:GeneralRating:k={k}", ctor("GeneralRating", prof(sgood), m=1, L=1, k=k), ValueError)
        add(f"H:Limited:k={k}", ctor("Limited", prof(sgood), m=1, k=k), ValueError)
    for L, k in ((2, 1), (1 + F(1, 10**6), 1), (3, 2)):
        add(f"H:GeneralRating:L={L}>k={k}", ctor("GeneralRating", prof(sgood), m=1, L=L, k=k), ValueError)
    for m, k in ((1, 2), (2, 3), (1, 1 + F(1, 10**6))):
        add(f"H:Limited:k={k}>m={m}", ctor("Limited", prof(sgood), m=m, k=k), ValueError)
    add("H:GeneralRating:L=k accepted", ctor("GeneralRating", prof(sgood), m=1, L=2, k=2), None)
    add("H:Limited:k=m accepted", ctor("Limited", prof(sgood), m=2, k=2, tiebreak="random"), None)
    # I. quota names
    for q in ("Droop", "harre", "", "imperiali"):
        for rule in ("STV", "IRV", "SequentialRCV"):
            kw = {} if rule == "IRV" else {"m": 1}
            add(f"I:{rule}:quota={q!r}", ctor(rule, prof(good), quota=q, **kw), ValueError)
        add(f"I:Alaska:quota={q!r}", ctor("Alaska", prof(good), m_1=2, m_2=1, quota=q), ValueError)
    # K. duplicate candidates
    for c in (("A", "A"), ("A", "B", "A"), ("A", "B", "C", "C")):
        add(f"K:PreferenceProfile:candidates={c}", (lambda c=c: PreferenceProfile(ballots=tuple(good), candidates=c)), ValueError)
    add("K:PreferenceProfile:unique accepted", (lambda: PreferenceProfile(ballots=tuple(good), candidates=cs)), None)

    # J. generators
    s2c = {"X": ["A", "B"], "Y": ["C", "D"]}

    def params(prop=None, coh=None, pis=None):
        return dict(
            pref_intervals_by_bloc=pis or {"X": {"X": PI({"A": 0.6, "B": 0.4}), "Y": PI({"C": 0.5, "D": 0.5})},
                                          "Y": {"X": PI({"A": 0.5, "B": 0.5}), "Y": PI({"C": 0.7, "D": 0.3})}},
            bloc_voter_prop=prop or {"X": 0.7, "Y": 0.3},
            cohesion_parameters=coh or {"X": {"X": 0.8, "Y": 0.2}, "Y": {"Y": 0.9, "X": 0.1}},
        )

    gens = {
        "name_PlackettLuce": lambda **p: bg.name_PlackettLuce(candidates=["A", "B", "C", "D"], **p),
        "short_name_PlackettLuce": lambda **p: bg.short_name_PlackettLuce(ballot_length=2, candidates=["A", "B", "C", "D"], **p),
        "name_BradleyTerry": lambda **p: bg.name_BradleyTerry(candidates=["A", "B", "C", "D"], **p),
        "name_Cumulative": lambda **p: bg.name_Cumulative(num_votes=2, candidates=["A", "B", "C", "D"], **p),
        "slate_PlackettLuce": lambda **p: bg.slate_PlackettLuce(slate_to_candidates=s2c, **p),
        "slate_BradleyTerry": lambda **p: bg.slate_BradleyTerry(slate_to_candidates=s2c, **p),
        "AlternatingCrossover": lambda **p: bg.AlternatingCrossover(slate_to_candidates=s2c, **p),
        "CambridgeSampler": lambda **p: bg.CambridgeSampler(slate_to_candidates=s2c, **p),
    }
    for g, mk in gens.items():
        add(f"J:{g}:valid accepted", (lambda mk=mk: mk(**params())), None)
        for d in (1e-7, -1e-7, 0.1, -0.3):
            add(f"J:{g}:bloc_voter_prop sums to 1{d:+g}", (lambda mk=mk, d=d: mk(**params(prop={"X": 0.7 + d, "Y": 0.3}))), ValueError)
            add(f"J:{g}:cohesion row sums to 1{d:+g}",
                (lambda mk=mk, d=d: mk(**params(coh={"X": {"X": 0.8 + d, "Y": 0.2}, "Y": {"Y": 0.9, "X": 0.1}}))), ValueError)
            add(f"J:{g}:second cohesion row sums to 1{d:+g}",
                (lambda mk=mk, d=d: mk(**params(coh={"X": {"X": 0.8, "Y": 0.2}, "Y": {"Y": 0.9, "X": 0.1 + d}}))), ValueError)
        for d in (1e-10, -1e-10):
            add(f"J:{g}:bloc_voter_prop sums to 1{d:+g} accepted", (lambda mk=mk, d=d: mk(**params(prop={"X": 0.7 + d, "Y": 0.3}))), None)
            add(f"J:{g}:cohesion row sums to 1{d:+g} accepted",
                (lambda mk=mk, d=d: mk(**params(coh={"X": {"X": 0.8 + d, "Y": 0.2}, "Y": {"Y": 0.9, "X": 0.1}}))), None)
        # bloc-name mismatches in each of the three dictionaries
        add(f"J:{g}:bloc names differ in bloc_voter_prop", (lambda mk=mk: mk(**params(prop={"X": 0.7, "Z": 0.3}))), ValueError)
        add(f"J:{g}:bloc names differ in cohesion_parameters",
            (lambda mk=mk: mk(**params(coh={"X": {"X": 0.8, "Y": 0.2}, "Z": {"Y": 0.9, "X": 0.1}}))), ValueError)
        pz = params()["pref_intervals_by_bloc"]
        pz = {"X": pz["X"], "Z": pz["Y"]}
        add(f"J:{g}:bloc names differ in pref_intervals_by_bloc", (lambda mk=mk, pz=pz: mk(**params(pis=pz))), ValueError)
        add(f"J:{g}:extra bloc in bloc_voter_prop", (lambda mk=mk: mk(**params(prop={"X": 0.5, "Y": 0.3, "Z": 0.2}))), ValueError)
        # every other way the three dictionaries can disagree on the set of blocs
        base = params()
        pis3 = dict(base["pref_intervals_by_bloc"], Z=base["pref_intervals_by_bloc"]["Y"])
        coh3 = dict(base["cohesion_parameters"], Z={"X": 0.5, "Y": 0.5})
        add(f"J:{g}:extra bloc in pref_intervals_by_bloc and cohesion_parameters", (lambda mk=mk, a=pis3, b=coh3: mk(**params(pis=a, coh=b))), ValueError)
        add(f"J:{g}:extra bloc in pref_intervals_by_bloc only", (lambda mk=mk, a=pis3: mk(**params(pis=a))), ValueError)
        add(f"J:{g}:extra bloc in cohesion_parameters only", (lambda mk=mk, b=coh3: mk(**params(coh=b))), ValueError)
        add(f"J:{g}:bloc missing from bloc_voter_prop", (lambda mk=mk: mk(**params(prop={"X": 1.0}))), ValueError)
        add(f"J:{g}:bloc missing from cohesion_parameters", (lambda mk=mk: mk(**params(coh={"X": {"X": 0.8, "Y": 0.2}}))), ValueError)
        add(f"J:{g}:bloc missing from pref_intervals_by_bloc",
            (lambda mk=mk, a={"X": base["pref_intervals_by_bloc"]["X"]}: mk(**params(pis=a))), ValueError)
        # partial parameter triples
        full = params()
        for drop in full:
            part = {k: v for k, v in full.items() if k != drop}
            if drop == "cohesion_parameters" and g != "short_name_PlackettLuce":
                # these classes take cohesion_parameters as a required argument: TypeError from Python itself
                add(f"J:{g}:without {drop}", (lambda mk=mk, part=part: mk(**part)), (ValueError, TypeError))
            else:
                add(f"J:{g}:without {drop}", (lambda mk=mk, part=part: mk(**part)), ValueError)
    # overlapping intervals
    ov = {"X": {"X": PI({"A": 0.6, "B": 0.4}), "Y": PI({"B": 0.5, "D": 0.5})},
          "Y": {"X": PI({"A": 0.5, "B": 0.5}), "Y": PI({"C": 0.7, "D": 0.3})}}
    for g in ("name_PlackettLuce", "short_name_PlackettLuce", "name_BradleyTerry", "name_Cumulative"):
        add(f"J:{g}:overlapping preference intervals", (lambda mk=gens[g]: mk(**params(pis=ov))), ValueError)
    add("J:combine_preference_intervals:overlap",
        (lambda: combine_preference_intervals([PI({"A": 0.5, "B": 0.5}), PI({"B": 0.5, "C": 0.5})], [0.5, 0.5])), ValueError)
    add("J:combine_preference_intervals:zero-support overlap",
        (lambda: combine_preference_intervals([PI({"A": 0.5, "B": 0.0}), PI({"B": 0.5, "C": 0.5})], [0.5, 0.5])), ValueError)
    for d in (1e-7, -1e-7, 0.5):
        add(f"J:combine_preference_intervals:proportions sum to 1{d:+g}",
            (lambda d=d: combine_preference_intervals([PI({"A": 0.5, "B": 0.5}), PI({"C": 1.0})], [0.5 + d, 0.5])), ValueError)
    add("J:combine_preference_intervals:valid accepted",
        (lambda: combine_preference_intervals([PI({"A": 0.5, "B": 0.5}), PI({"C": 1.0})], [0.5, 0.5])), None)
    # missing candidates
    add("J:name_PlackettLuce:neither candidates nor slate_to_candidates", (lambda: bg.name_PlackettLuce(**params())), ValueError)
    add("J:ImpartialCulture:neither candidates nor slate_to_candidates", (lambda: bg.ImpartialCulture()), ValueError)
    add("J:slate_PlackettLuce:neither candidates nor slate_to_candidates",
        (lambda: bg.BallotGenerator(**params())), ValueError)
    add("J:BallotSimplex.from_point:point sums to 1.1", (lambda: bg.BallotSimplex.from_point(point={"A": 0.6, "B": 0.5}, candidates=["A", "B"])), ValueError)
    add("J:BallotSimplex.from_point:valid accepted", (lambda: bg.BallotSimplex.from_point(point={"A": 0.5, "B": 0.5}, candidates=["A", "B"])), None)
    # from_params
    al = {"X": {"X": 1, "Y": 1}, "Y": {"X": 1, "Y": 1}}
    coh = {"X": {"X": 0.8, "Y": 0.2}, "Y": {"Y": 0.9, "X": 0.1}}
    for cname in ("name_PlackettLuce", "slate_PlackettLuce", "slate_BradleyTerry", "name_BradleyTerry", "AlternatingCrossover"):
        cls = getattr(bg, cname)
        add(f"J:{cname}.from_params:bloc_voter_prop sums to 1.1",
            (lambda cls=cls: cls.from_params(slate_to_candidates=s2c, bloc_voter_prop={"X": 0.8, "Y": 0.3}, cohesion_parameters=coh, alphas=al)), ValueError)
        add(f"J:{cname}.from_params:bloc names differ",
            (lambda cls=cls: cls.from_params(slate_to_candidates=s2c, bloc_voter_prop={"X": 0.7, "Z": 0.3}, cohesion_parameters=coh, alphas=al)), ValueError)
    return T


def build_cases(tier, seed):
    global _CASES, _TABLE
    _TABLE = build_table()
    _CASES = list(range(len(_TABLE)))
    meta = {
        "family": f"decision table of {len(_TABLE)} requests (bloc-name disagreements in every direction: renamed, extra in one / two dictionaries, missing from one): ballot without ranking (13 ranking rules x 2 kinds x first/middle/last/only), tied positions "
                  "(STV family), non-integer weights (PluralityVeto, random transfer), missing scores (6 score rules), m in {0,-1,n+1,7} (15 rules), "
                  "Alaska stage sizes, score vectors, L/k limits, quota names, duplicate candidates, generator parameter checks at 1+-1e-7 (reject) "
                  "and 1+-1e-10 (accept), bloc-name mismatches, overlapping intervals, missing parameters; plus the boundary accept cases",
        "assumptions": ["pydantic's ValidationError counts as ValueError (it subclasses it)",
                        "accept cases with random draws are run under the real RNG seeded with 0"],
    }
    return list(_CASES), meta


def case_json(i):
    return {"row": _TABLE[i][0]} if isinstance(i, int) else i


def case_from_json(j):
    for k, row in enumerate(build_table() if _TABLE is None else _TABLE):
        if row[0] == j["row"]:
            return k
    raise KeyError(j["row"])


witness_case = case_from_json


_PARTNERS = None


def _partner(i):
    """index of the first row of the same rule/helper (second label component) with the opposite documented outcome, or None"""
    global _PARTNERS
    if _PARTNERS is None:
        by = {}
        for k, (lab, _, exp) in enumerate(_TABLE):
            by.setdefault(lab.split(":")[1], {}).setdefault(exp is None, k)
        _PARTNERS = by
    lab, _, exp = _TABLE[i]
    return _PARTNERS.get(lab.split(":")[1], {}).get(exp is not None)


def run_case(i, tier):
    global _TABLE
    if _TABLE is None:
        _TABLE = build_table()
    label, thunk, exp = _TABLE[i]
    cnt = collections.Counter()
    out = {"counters": cnt, "viols": []}
    cnt["executions"] += 1
    cnt["nontrivial"] += 1
    cnt["states"] += 1
    group = label.split(":")[0] + ":" + label.split(":")[1]
    # cold: the request on its own.  warm: the same request straight after another request of the same rule / helper with
    # the opposite documented outcome (a valid one before an invalid one, an invalid one - caught - before a valid one), so that
    # validation state kept between calls (a cache of "already validated", a flag left behind by a caught error) is exercised.
    partner = _partner(i)
    for mode in ("cold", "warm"):
        if mode == "warm":
            if partner is None:
                break
            cnt["executions"] += 1
            cnt["warm_sequences"] += 1
            chooser.real_seed(0)
            vkit.reset_steps()
            try:
                _TABLE[partner][1]()
            except Exception:
                pass
        chooser.real_seed(0)
        vkit.reset_steps()
        res = None
        try:
            res = thunk()
            got = None
        except vkit.HorizonExceeded as e:
            got = e
        except Exception as e:
            got = e
        lab = label if mode == "cold" else f"{label} [after {_TABLE[partner][0]}]"
        if exp is None:
            if got is not None:
                out["viols"].append({"sig": {"kind": "valid_request_rejected", "rule": group, "mode": mode},
                                     "msg": f"{lab}: a valid request raised {type(got).__name__}: {got}", "case": case_json(i)})
        else:
            if got is None:
                out["viols"].append({"sig": {"kind": "not_rejected", "rule": group, "mode": mode},
                                     "msg": f"{lab}: accepted (returned {type(res).__name__}), documented error is {getattr(exp, '__name__', exp)}",
                                     "case": case_json(i)})
            elif not isinstance(got, exp):
                out["viols"].append({"sig": {"kind": "wrong_error", "rule": group, "exc": type(got).__name__, "mode": mode},
                                     "msg": f"{lab}: raised {type(got).__name__}: {got}; documented error is {getattr(exp, '__name__', exp)}",
                                     "case": case_json(i)})
    if i % 97 == 0:
        out["sample"] = {"row": label, "expected": getattr(exp, "__name__", str(exp))}
    return out


def finalize(agg, tier):
    return {"coverage": {
        "exhaustive": True,
        "rule": "one case = one row of the decision table (a request violating exactly one documented precondition, or a boundary accept case); "
                "every row is distinct and non-trivial by construction",
    }}

"""C09 -- round-by-round queries on a finished election are consistent and pure.

X2: explicit-state search over query histories.  The state is a canonical serialisation of
the *entire* election object; every event of the menu is applied in every reachable state
until the frontier is empty (fixpoint) or depth 3.
"""

from __future__ import annotations

import collections
import dataclasses
import itertools
from fractions import Fraction

from engine import chooser, families as fam, refs, vkit
from engine.chooser import CH
from . import common, c01

ID = "C09"
LEVEL = "model_checking"
CHUNK = 2
F = Fraction
_CASES = None

QUERIES = ("get_profile", "get_step", "get_elected", "get_eliminated", "get_remaining", "get_ranking", "get_status_df")


def build_cases(tier, seed):
    global _CASES
    cs = []
    rp = fam.prof_list(fam.rank_family(3), 2, (1, 2), fam.cands(3))
    for c in (rp[:30] + rp[30::4] if tier == "quick" else rp):
        cs.append(("rank", "int", c))
    # three ballot types over bullet and two-choice ballots: multi-round elections in which the first-round leader does
    # not win (transfers decide); only the multi-round rules are run on these (see run_case)
    nine = fam.bullet_family(3) + [r for r in fam.rank_family(3) if len(r) == 2]
    k3 = [c for c in fam.prof_list(nine, 3, (1, 2), fam.cands(3)) if len(c[1]) == 3]
    for c in k3:
        cs.append(("rank3", "int", c))
    wk = common.weak_profiles("quick")
    for c in (wk[::9] if tier == "quick" else wk):
        cs.append(("weak", "int", c))
    sp = common.score_profiles("quick")
    for c in (sp[::7] if tier == "quick" else sp):
        cs.append(("score", "x", c))
    if tier != "quick":
        for c in fam.prof_list(fam.rank_family(3), 2, (F(1, 2), F(3, 2)), fam.cands(3)):
            cs.append(("rank", "rat", c))
    _CASES = cs
    meta = {
        "family": "finished elections of every rule class on " + ("the 30 single-type and every 4th two-type profile of " if tier == "quick" else "")
                  + "Prof(Rank(3),2,{1,2}), three-type profiles over Bullet(3)+Len2(3) with weights {1,2} for the multi-round rules (+ a slice of Prof(Weak(3),2,{1,2}) for tie-tolerant rules and of the "
                  "score profiles for score rules), " + ("one configuration per code path" if tier == "quick" else "all configurations of the C01 menu")
                  + ", restricted to constructions that consumed no random choice; events = 7 queries x r in "
                  + ("{-L-2,-L-1,-L,-2,-1,0,1,L-1,L,L+1}" if tier == "quick" else "{-L-2..L+1}") + " + len + str",
        "assumptions": ["state = canonical serialisation of the whole object __dict__ (nothing dropped)",
                        "elections whose construction drew a random number are outside the property"],
    }
    return list(range(len(cs))), meta


def _get(i):
    return _CASES[i] if isinstance(i, int) else i


def case_json(i):
    kind, tag, c = _get(i)
    return c01.case_json(("rank" if kind == "rank3" else kind, tag, c))


def case_from_json(j):
    return c01.case_from_json(j)


witness_case = case_from_json


def canon(x, depth=0):
    """Canonical, hashable serialisation of arbitrary election state."""
    import pandas as pd
    from votekit.pref_profile import PreferenceProfile
    from votekit.ballot import Ballot

    if depth > 12:
        return "<deep>"
    if isinstance(x, Fraction):
        return ("F", x.numerator, x.denominator)
    if isinstance(x, (str, int, float, bool)) or x is None:
        return x
    if isinstance(x, (frozenset, set)):
        return ("set", tuple(sorted((canon(y, depth + 1) for y in x), key=repr)))
    if isinstance(x, (list, tuple)):
        return (type(x).__name__, tuple(canon(y, depth + 1) for y in x))
    if isinstance(x, dict):
        return ("dict", tuple(sorted(((canon(k, depth + 1), canon(v, depth + 1)) for k, v in x.items()), key=repr)))
    if isinstance(x, Ballot):
        return ("Ballot", canon(x.ranking, depth + 1), canon(x.weight), canon(x.scores, depth + 1), x.id, canon(x.voter_set, depth + 1))
    if isinstance(x, PreferenceProfile):
        return ("Profile", tuple(canon(b, depth + 1) for b in x.ballots), canon(tuple(x.candidates), depth + 1))
    if isinstance(x, pd.DataFrame):
        return ("DataFrame", x.to_string())
    if dataclasses.is_dataclass(x):
        return (type(x).__name__, tuple((f.name, canon(getattr(x, f.name), depth + 1)) for f in dataclasses.fields(x)))
    if callable(x):
        return ("callable", getattr(x, "__name__", None) or getattr(getattr(x, "func", None), "__name__", repr(type(x))))
    if hasattr(x, "__dict__"):
        return (type(x).__name__, canon(vars(x), depth + 1))
    try:
        import numpy as np

        if isinstance(x, np.ndarray):
            return ("ndarray", tuple(x.tolist()))
        if isinstance(x, np.generic):
            return x.item()
    except Exception:
        pass
    return repr(x)


def obj_state(e):
    return canon(vars(e))


def answer(e, q, r):
    """Canonical answer of query q at round r, or ('EXC', type name)."""
    vkit.reset_steps()  # the step horizon is per query (Alaska.get_profile runs a fresh STV)
    try:
        if q == "len":
            return len(e)
        if q == "str":
            return str(e)
        res = getattr(e, q)(r)
    except Exception as ex:
        return ("EXC", type(ex).__name__)
    if q == "get_profile":
        return ("profile", vkit.canon_profile(res))
    if q == "get_step":
        return ("step", vkit.canon_profile(res[0]), vkit.canon_state(res[1]))
    if q == "get_status_df":
        return ("df", tuple((str(idx), row["Status"], int(row["Round"])) for idx, row in res.iterrows()))
    return ("groups", vkit.canon_groups(res))


def quick_menu(kind, tag, case, tier):
    """One configuration per code path (quick) or the full C01 menu (thorough)."""
    full = list(c01.rule_menu(kind, tag, case, "quick"))
    if tier != "quick":
        return [x for x in full if x[0] != "STVrandom" and x[2].get("transfer") != "random"]
    keep = []
    seen = set()
    for (label, vrule, kw, exp_m, spec) in full:
        if label == "STVrandom" or kw.get("transfer") == "random":
            continue
        tb = kw.get("tiebreak")
        key = (label, kw.get("m", kw.get("m_2")), kw.get("m_1"), kw.get("simultaneous"), kw.get("quota") if kw.get("m", 1) == 2 else None,
               tb if tb in (None, "borda") else "x", kw.get("L"), kw.get("k"))
        if tb in ("random", "first_place"):
            continue
        if kw.get("quota") == "hare" and kw.get("m", 1) != 2:
            continue
        if key in seen:
            continue
        seen.add(key)
        keep.append((label, vrule, kw, exp_m, spec))
    return keep


def _viol(kind, label, kw, i, msg, hist=None):
    d = {"sig": {"kind": kind, "rule": label}, "msg": f"{label} {kw} on {case_json(i)}: {msg}", "case": case_json(i),
         "config": vkit.jsonable(kw)}
    if hist:
        d["history"] = hist
    return d


def score_fn_for(label, vrule, kw):
    from votekit import utils as U
    from functools import partial

    if label in ("STV", "IRV", "SequentialRCV", "Plurality", "SNTV", "TopTwo", "Alaska", "RandomDictator", "BoostedRandomDictator", "PluralityVeto"):
        return U.first_place_votes
    if label == "Borda":
        return None  # judged with the election's own score_function (public attribute)
    if label == "CondoBorda":
        return U.borda_scores
    if label in ("Rating", "Approval", "Limited", "Cumulative", "BlocPlurality", "GeneralRating"):
        return U.score_profile_from_ballot_scores
    return None


def check_consistency(e, label, vrule, kw, case, i, out):
    """Evaluated once per election on the answers."""
    L = len(e.election_states) - 1
    cs = case[0]
    el_acc = []
    for r in range(L + 1):
        st = e.election_states[r]
        try:
            prof = e.get_profile(r)
        except Exception as ex:
            return f"get_profile({r}) raised {type(ex).__name__}: {ex}", ("exception", type(ex).__name__, vkit.exc_where(ex))
        rem = set(vkit.flat(e.get_remaining(r)))
        if set(prof.candidates) != rem or len(prof.candidates) != len(rem):
            return (f"get_profile({r}).candidates = {sorted(prof.candidates)} but the candidates remaining after round {r} are {sorted(rem)}",
                    ("profile_candidates",))
        listed = {c for b in prof.ballots for pos in (b.ranking or ()) for c in pos} | {c for b in prof.ballots for c in (b.scores or {})}
        if not listed <= rem:
            return f"get_profile({r}) still lists {sorted(listed - rem)} which are no longer remaining", ("profile_candidates",)
        fn = score_fn_for(label, vrule, kw) or e.score_function
        if fn is not None and st.scores:
            try:
                sc = fn(prof)
            except Exception as ex:
                return f"re-scoring get_profile({r}) raised {type(ex).__name__}: {ex}", ("rescore",)
            if dict(sc) != dict(st.scores):
                return (f"re-scoring get_profile({r}) gives {vkit.jsonable(dict(sc))}, recorded tallies are {vkit.jsonable(dict(st.scores))}",
                        ("rescore",))
        # cumulative queries agree with the per-round records
        exp_el = tuple(s for stt in e.election_states[: r + 1] for s in stt.elected if stt.elected != (frozenset(),))
        if e.get_elected(r) != exp_el:
            return f"get_elected({r}) = {e.get_elected(r)} != concatenation of per-round records {exp_el}", ("cumulative",)
        exp_x = tuple(s for stt in e.election_states[r::-1] for s in stt.eliminated[::-1] if stt.eliminated != (frozenset(),))
        if e.get_eliminated(r) != exp_x:
            return f"get_eliminated({r}) = {e.get_eliminated(r)} != reversed per-round records {exp_x}", ("cumulative",)
        if e.get_remaining(r) != tuple(st.remaining):
            return f"get_remaining({r}) != recorded remaining", ("cumulative",)
        exp_rank = tuple(s for s in exp_el + tuple(st.remaining) + exp_x if len(s) != 0)
        if e.get_ranking(r) != exp_rank:
            return f"get_ranking({r}) = {e.get_ranking(r)} != elected + remaining + eliminated {exp_rank}", ("cumulative",)
        # status frame
        df = e.get_status_df(r)
        exp_status = {}
        for rr in range(1, r + 1):
            for s in e.election_states[rr].elected:
                for c in s:
                    exp_status[c] = ("Elected", rr)
            for s in e.election_states[rr].eliminated:
                for c in s:
                    exp_status[c] = ("Eliminated", rr)
        for c in vkit.flat(st.remaining):
            exp_status[c] = ("Remaining", r)
        got_status = {str(idx): (row["Status"], int(row["Round"])) for idx, row in df.iterrows()}
        if got_status != {str(c): v for c, v in exp_status.items()} or [str(x) for x in df.index] != [str(c) for s in exp_rank for c in s]:
            return (f"get_status_df({r}) = {got_status} (order {list(df.index)}); per-round records imply {exp_status} in ranking order",
                    ("status_df",))
    return None, None


def run_case(i, tier):
    kind, tag, case = _get(i)
    cnt = collections.Counter()
    out = {"counters": cnt, "viols": []}
    mkind = "rank" if kind == "rank3" else kind
    for (label, vrule, kw, exp_m, spec) in quick_menu(mkind, tag, case, tier):
        if kind == "rank3" and (label not in ("TopTwo", "Alaska", "IRV") or (tier == "quick" and label == "Alaska" and kw.get("m_1") != 2)):
            continue
        if kind == "score":
            L_, k_ = common.score_rule_limits(vrule, kw)
            if not all(common.score_ballot_valid(sc, L_, k_) for sc, _ in case[1]):
                continue
            fn = c01._score_fn(vrule, case, kw)
        else:
            fn = vkit.election_fn(vrule, case, kw)
        p = chooser.run_once(fn)
        if p.exc is not None or p.branching > 0:
            cnt["skipped_random_or_refused"] += 1
            continue
        e = p.result
        cnt["elections"] += 1
        L = len(e.election_states) - 1
        rs = range(-L - 2, L + 2)
        if tier == "quick":
            rs = sorted({-L - 2, -L - 1, -L, -2, -1, 0, 1, L - 1, L, L + 1} & set(range(-L - 2, L + 2)))
        events = [(q, r) for q in QUERIES for r in rs] + [("len", None), ("str", None)]
        # ---- explicit-state search -------------------------------------------------------------
        s0 = obj_state(e)
        rounds0 = canon(e.election_states)
        seen = {s0}
        answers = {}
        frontier = [((), s0)]
        depth = 0
        impure = None
        while frontier and depth < 3 and impure is None:
            nxt = []
            for hist, st in frontier:
                if hist:
                    # rebuild a fresh object and replay the history (live objects are not copied)
                    e2 = chooser.run_once(fn).result
                    for (q, r) in hist:
                        answer(e2, q, r)
                else:
                    e2 = e
                for ev in events:
                    CH.begin(())
                    try:
                        a = answer(e2, ev[0], ev[1])
                    finally:
                        CH.active = False
                    cnt["transitions"] += 1
                    cnt["executions"] += 1
                    if CH.branching > 0:
                        out["viols"].append(_viol("query_draws_randomness", label, kw, i,
                                                  f"{ev[0]}({ev[1]}) made {CH.branching} random choice(s) on an election recorded without randomness",
                                                  [list(h) for h in hist] + [list(ev)]))
                        impure = True
                        break
                    s1 = obj_state(e2)
                    if ev in answers and answers[ev] != a:
                        out["viols"].append(_viol("unstable_answer", label, kw, i,
                                                  f"{ev[0]}({ev[1]}) answered {str(answers[ev])[:200]} before and {str(a)[:200]} after the history "
                                                  f"{[list(h) for h in hist]}", [list(h) for h in hist] + [list(ev)]))
                        impure = True
                        break
                    answers.setdefault(ev, a)
                    if canon(e2.election_states) != rounds0:
                        out["viols"].append(_viol("impure_query", label, kw, i,
                                                  f"{ev[0]}({ev[1]}) changed the recorded rounds of the election (history {[list(h) for h in hist]})",
                                                  [list(h) for h in hist] + [list(ev)]))
                        impure = True
                        break
                    if s1 != st:
                        # the object changed outside its recorded rounds (e.g. a cache): not a violation by itself, but a new
                        # state of the search -- every event is asked again from it (answers must not change)
                        cnt["hidden_state_changes"] += 1
                        if s1 not in seen:
                            seen.add(s1)
                            nxt.append((hist + (ev,), s1))
                        e2 = chooser.run_once(fn).result
                        for (q, r) in hist:
                            answer(e2, q, r)
                    # same state: the object can be reused for the next event
                if impure:
                    break
            frontier = nxt
            depth += 1
        cnt["states"] += len(seen)
        cnt["distinct_answers"] += len(set(answers.values()))
        if impure:
            continue
        # second pass in reverse order: answers must be the same in every state in which they are asked
        for ev in reversed(events):
            a = answer(e, ev[0], ev[1])
            cnt["transitions"] += 1
            if answers[ev] != a:
                out["viols"].append(_viol("unstable_answer", label, kw, i, f"{ev[0]}({ev[1]}) gives different answers when asked again"))
                break
        if canon(e.election_states) != rounds0:
            out["viols"].append(_viol("impure_query", label, kw, i, "the recorded rounds changed during the second pass"))
            continue
        # ---- index semantics -----------------------------------------------------------------------
        bad = None
        for q in QUERIES:
            for r in range(0, L + 1):
                if (q, r) not in answers or (q, r - (L + 1)) not in answers:
                    continue
                if answers[(q, r)] != answers[(q, r - (L + 1))]:
                    bad = f"{q}({r}) != {q}({r - (L + 1)})"
            for r in (-L - 2, L + 1):
                if answers[(q, r)] != ("EXC", "IndexError"):
                    bad = f"{q}({r}) is out of range but answered {str(answers[(q, r)])[:120]} instead of raising IndexError"
        if answers[("len", None)] != L:
            bad = f"len() = {answers[('len', None)]} but {L} rounds were recorded"
        if bad:
            excs = sorted({a[1] for (q, r), a in answers.items() if isinstance(a, tuple) and a and a[0] == "EXC" and 0 <= (r or 0) <= L and q != "len"})
            out["viols"].append({**_viol("index_semantics", label, kw, i, bad), **({"sig": {"kind": "index_semantics", "rule": label, "exc": excs[0]}} if excs else {})})
            continue
        # ---- consistency --------------------------------------------------------------------------
        msg, tagk = check_consistency(e, label, vrule, kw, case, i, out)
        if msg:
            sig = {"kind": "inconsistent_" + tagk[0], "rule": label}
            if len(tagk) > 1:
                sig["exc"] = tagk[1]
                sig["where"] = tagk[2]
            out["viols"].append({"sig": sig, "msg": f"{label} {kw} on {case_json(i)}: {msg}", "case": case_json(i), "config": vkit.jsonable(kw)})
            continue
        cnt["traces"] += 1
        if L >= 2:
            cnt["nontrivial"] += 1
    if isinstance(i, int) and i % 151 == 0:
        out["sample"] = {"case": case_json(i), "elections": cnt["elections"], "events_applied": cnt["transitions"]}
    return out


def finalize(agg, tier):
    return {"coverage": {
        "exhaustive": True,
        "rule": "one case = one profile x the configuration menu; for each finished election the event menu is applied in every reachable state "
                "(BFS to a fixpoint, depth <= 3); nontrivial = elections with at least two recorded rounds after round 0",
        "explanation": "states = distinct canonical object states reached (1 per election when queries are pure); transitions = events applied; "
                       "traces = elections whose complete answer table passed the consistency oracle; distinct_answers counts distinct query answers",
    }}

"""C10 -- randomness only breaks genuine ties, and every tiebreak is recorded.

X1 over all scripted outcomes of every non-random rule; structural oracle on every recorded
tiebreak; exact law of the resolutions for 'borda' / 'first_place' / 'random'.
"""

from __future__ import annotations

import collections
import itertools
from fractions import Fraction

from engine import chooser, families as fam, lockstep, refs, vkit
from . import common
from . import c01

ID = "C10"
LEVEL = "model_checking"
CHUNK = 2
F = Fraction
_CASES = None

RANDOM_RULES = ("RandomDictator", "BoostedRandomDictator", "PluralityVeto", "STVrandom")


def build_cases(tier, seed):
    global _CASES
    cs = []
    for tag, c in common.rank_profiles(tier, extra4=False):
        cs.append(("rank", tag, c))
    for c in common.weak_profiles(tier):
        cs.append(("weak", "int", c))
    for c in common.score_profiles(tier):
        cs.append(("score", "x", c))
    # four candidates, complete rankings: ties of up to four candidates at the seat boundary whose
    # secondary score leaves several still-tied groups (single-round rules only, see run_case)
    for c in fam.prof_list(fam.perm_family(4), 2, (1,), fam.cands(4)):
        cs.append(("rank4s", "int", c))
    # four candidates, multi-round: one-by-one STV-family counts with a tiebreak (election ties in later rounds whose
    # Borda / first-place order differs between the initial and the current profile)
    pb4 = fam.perm_family(4) + fam.bullet_family(4)
    for c in fam.prof_list(pb4, 2, (1, 2), fam.cands(4))[:: (6 if tier == "quick" else 2)]:
        cs.append(("rank4m", "int", c))
    if tier == "thorough":
        # engineered tie family on four candidates: profiles with a tie in first-place or Borda scores
        c4 = fam.cands(4)
        for c in fam.prof_list(fam.rank_family(4), 2, (1, 2), c4):
            fp = refs.ref_fpv(c)
            bo = refs.ref_borda(c)
            pos = [v for v in fp.values() if v > 0]
            if len(set(pos)) < len(pos) or len(set(bo.values())) < 4:
                cs.append(("rank4", "int", c))
    _CASES = cs
    meta = {
        "family": "ranked: " + common.family_text(tier, extra4=False) + "; Prof(Perm(4),2,{1}) for the single-round rules; a slice of Prof(Perm(4)+Bullet(4),2,{1,2}) for one-by-one STV / SequentialRCV with a tiebreak; tied ballots Prof(Weak(3),2,{1,2}); score profiles; "
                  + ("engineered tie family: Prof(Rank(4),2,{1,2}) filtered to profiles with equal positive first-place or equal Borda scores; " if tier == "thorough" else "")
                  + "x every non-random rule configuration (Plurality, SNTV, Borda (conventional and 0/1 / (2,1,..,1) score vectors), TopTwo, CondoBorda, DominatingSets, STV/IRV/"
                  "SequentialRCV with fractional transfer, Alaska, Rating/Approval/Limited/Cumulative/BlocPlurality) x tiebreak in "
                  "{None,random,borda,first_place} x all RNG paths",
        "assumptions": ["intentionally random rules (RandomDictator, BoostedRandomDictator, PluralityVeto, random transfer) are excluded by the property",
                        "the order of an STV one-by-one / elimination tiebreak under 'borda'/'first_place' is pinned by C02's lock-step model; "
                        "here its structure (tie on the previous tally, winner first / loser last) is checked",
                        "runs that raise are judged by C01"],
    }
    return list(range(len(cs))), meta


def _get(i):
    return _CASES[i] if isinstance(i, int) else i


def case_json(i):
    kind, tag, c = _get(i)
    return c01.case_json((("rank" if kind in ("rank4", "rank4s", "rank4m") else kind), tag, c))


def case_from_json(j):
    return c01.case_from_json(j)


witness_case = case_from_json


def _viol(kind, label, kw, i, msg, path=None):
    d = {"sig": {"kind": kind, "rule": label}, "msg": f"{label} {kw} on {case_json(i)}: {msg}",
         "case": case_json(i), "config": vkit.jsonable(kw)}
    if path is not None:
        d["choices"] = list(path.choices)
        d["values"] = vkit.jsonable(path.values)
    return d


def tb_items(st):
    return [(frozenset(k), v) for k, v in st[4]]


def _order_in(groups, T):
    return [c for g in groups for c in g if c in T]


def _is_singletons(res):
    return all(len(g) == 1 for g in res)


def check_structure(label, what, states, case, kind):
    """Clause (2): returns message or None.  `what` is the C01 oracle spec tag."""
    for r, st in enumerate(states):
        items = tb_items(st)
        if r == 0 and items:
            return "round 0 records a tiebreak"
        if len(items) > 1:
            pass
        for T, res in items:
            if not _is_singletons(res):
                return f"round {r}: resolution {res} of tie {sorted(T)} is not a strict order"
            order = tuple(g[0] for g in res)
            if sorted(order) != sorted(T) or len(T) < 2:
                return f"round {r}: resolution {order} is not a permutation of the tied set {sorted(T)}"
            el = [c for g in st[2] for c in g]
            rem = [c for g in st[1] for c in g]
            xs = [c for g in st[3] for c in g]
            prev = states[r - 1]
            prev_sc = dict(prev[5])
            stage1 = what in ("toptwo", "alaska") and r == 1
            if what == "condo":
                marg = refs.ref_pairwise(case)
                tiers = refs.ref_tiers(case[0], marg)
                if not any(T <= t for t in tiers) or not any(T == t for t in tiers):
                    return f"round {r}: tie {sorted(T)} is not a dominating tier {tiers}"
            else:
                vals = {prev_sc.get(c) for c in T}
                if len(vals) != 1 or None in vals:
                    return (f"round {r}: recorded tie {sorted(T)} is not tied on the deciding tally "
                            f"{ {c: str(prev_sc.get(c)) for c in sorted(T)} }")
            if stage1:
                adv = _order_in(st[1], T)
                out = _order_in(st[3], T)
                if not adv or not out:
                    return f"round {r}: tie {sorted(T)} does not straddle the advancing/eliminated boundary"
                if tuple(adv + out) != order:
                    return f"round {r}: advancing {adv} / eliminated {out} do not obey the recorded order {order}"
            elif what in ("stv", "alaska"):
                # the deciding tally is the previous round's tallies (the previous round's `remaining` may list candidates
                # that are tied on the tally as separate singletons, e.g. in the order of Alaska's first-stage tiebreak)
                live = {c: v for c, v in prev_sc.items()}
                if el:
                    top = frozenset(c for c, v in live.items() if v == max(live.values()))
                    if top != T:
                        return f"round {r}: election tiebreak on {sorted(T)} but the candidates with the highest tally were {sorted(top)}"
                    if el != [order[0]]:
                        return f"round {r}: elected {el} is not the first of the recorded order {order}"
                elif xs:
                    low = frozenset(c for c, v in live.items() if v == min(live.values()))
                    if low != T:
                        return f"round {r}: elimination tiebreak on {sorted(T)} but the candidates with the lowest tally were {sorted(low)}"
                    if xs != [order[-1]]:
                        return f"round {r}: eliminated {xs} is not the last of the recorded order {order}"
                else:
                    return f"round {r}: tiebreak recorded in a round that neither elects nor eliminates"
            else:
                e_in = _order_in(st[2], T)
                r_in = _order_in(st[1], T)
                if not e_in or not r_in:
                    return f"round {r}: tie {sorted(T)} does not straddle the last seat (elected {e_in}, not elected {r_in})"
                if tuple(e_in + r_in) != order:
                    return f"round {r}: elected {e_in} / remaining {r_in} do not obey the recorded order {order}"
    return None


def score_for_tb(tb, case):
    if tb == "borda":
        return refs.ref_borda(case)
    if tb == "first_place":
        return refs.ref_fpv(case)
    return {c: 0 for c in case[0]}


def run_case(i, tier):
    kind, tag, case = _get(i)
    mkind = "rank" if kind in ("rank4", "rank4s", "rank4m") else kind
    cs = case[0]
    cnt = collections.Counter()
    out = {"counters": cnt, "viols": []}
    menu = list(c01.rule_menu(mkind, tag, case, tier))
    if mkind in ("rank", "weak") and kind != "rank4m":
        # Borda with a non-conventional score vector: ties on the custom tally whose conventional Borda scores differ
        n = len(cs)
        vecs = {tuple([1] * k + [0] * (n - k)) for k in range(1, n + 1)} | {tuple([2] + [1] * (n - 1))}
        for m in range(1, n + 1):
            for tb in common.TBS:
                for vec in sorted(vecs):
                    menu.append(("Borda", "Borda", dict(m=m, tiebreak=tb, score_vector=vec), m, ("borda", m, tb)))
    for (label, vrule, kw, exp_m, spec) in menu:
        if label in RANDOM_RULES or kw.get("transfer") == "random":
            continue
        if kind == "rank4s" and label not in ("Plurality", "SNTV", "Borda", "TopTwo", "CondoBorda", "DominatingSets"):
            continue
        if kind == "rank4m" and (label not in ("STV", "SequentialRCV") or kw.get("simultaneous", True) or kw.get("tiebreak") is None):
            continue
        if mkind == "score" and False:
            continue
        what = spec[0]
        if label == "CondoBorda":
            what = "condo"
        if mkind == "score":
            fn = c01._score_fn(vrule, case, kw)
            L, k = common.score_rule_limits(vrule, kw)
            if not all(common.score_ballot_valid(sc, L, k) for sc, _ in case[1]):
                continue
        else:
            fn = vkit.election_fn(vrule, case, kw)
        paths = list(chooser.explore(fn, max_paths=20000))
        cnt["paths"] += len(paths)
        cnt["configs"] += 1
        okpaths = [p for p in paths if p.exc is None]
        cnt["skipped_exception"] += len(paths) - len(okpaths)
        outcomes = {}
        by_record = {}
        res_dist = {}
        any_tb = False
        for p in okpaths:
            cnt["executions"] += 1
            states = vkit.canon_election(p.result)
            cnt["transitions"] += len(states) - 1
            cnt["traces"] += 1
            recorded = [(r, T, res) for r, st in enumerate(states) for T, res in tb_items(st)]
            if recorded:
                any_tb = True
            # (1) randomness only with a recorded tiebreak
            if p.branching > 0 and not recorded:
                out["viols"].append(_viol("unrecorded_randomness", label, kw, i,
                                          f"the run consumed {p.branching} random choice(s) but no round records a tiebreak", p))
                continue
            if not recorded:
                outcomes.setdefault("no_tb", set()).add(states)
            else:
                # all randomness of a run goes into its recorded resolutions: runs that record the same resolutions in the
                # same rounds must be the same run
                by_record.setdefault(tuple(recorded), set()).add(states)
            # (2) structure
            msg = check_structure(label, what, states, case, mkind)
            if msg:
                out["viols"].append(_viol("tiebreak_structure", label, kw, i, msg, p))
                continue
            # (3') STV one-by-one election ties under 'borda' / 'first_place': the recorded order must be consistent with that
            # score of the profile *of that round* (reconstructed by the lock-step reference), random only inside still-tied groups
            if what == "stv" and recorded and kw.get("tiebreak") in ("borda", "first_place") and not kw.get("simultaneous", True):
                _, m_, q_, sim_, tb_, tr_ = spec
                cfg = refs.STVConfig(m_, q_, sim_, tb_, tr_, case)
                v = lockstep.follow(states, None, case, cfg)
                if v.status in ("ok", "violation"):
                    bad = None
                    for (r, T, res) in recorded:
                        if not [c for g in states[r][2] for c in g]:
                            continue  # elimination tiebreak: decided by initial first-place votes (C02)
                        if len(v.per_round) < r:
                            break  # the rounds before r are not a legal count (C02 reports that)
                        order = tuple(g[0] for g in res)
                        okk = False
                        for (B, rem, nel) in v.per_round[r - 1]:
                            cur = refs.case_of(B, rem)
                            sc = refs.ref_borda(cur) if tb_ == "borda" else refs.ref_fpv(cur)
                            if order in set(refs._orders_by_score(T, sc)):
                                okk = True
                        if not okk:
                            bad = (f"round {r}: recorded resolution {order} of the election tie {sorted(T)} is not consistent with the "
                                   f"{tb_} scores of the profile of that round")
                            break
                    if bad:
                        out["viols"].append(_viol("tiebreak_order", label, kw, i, bad, p))
                        continue
            # collect law of the first recorded resolution
            if recorded and what in ("fpv", "borda", "score", "condo", "toptwo", "alaska"):
                r, T, res = recorded[0]
                if r == 1:
                    key = (T, tuple(g[0] for g in res))
                    res_dist[key] = res_dist.get(key, F(0)) + p.prob
        if len(outcomes.get("no_tb", ())) > 1:
            out["viols"].append(_viol("seed_dependent_outcome", label, kw, i,
                                      "different outcomes occur on paths that record no tiebreak"))
        for rec, sts in by_record.items():
            if len(sts) > 1:
                out["viols"].append(_viol("unrecorded_randomness", label, kw, i,
                                          f"{len(sts)} different outcomes record the same tiebreak resolutions {vkit.jsonable(rec)}: "
                                          "some random draw that changed the outcome is not recorded"))
                break
        # (3) law of the round-1 resolution
        if len(okpaths) != len(paths):
            res_dist = {}  # some paths raised (judged by C01): the law over the remaining paths is not meaningful
        if res_dist and mkind != "score" or (res_dist and kw.get("tiebreak") == "random"):
            tb = "borda" if what == "condo" else kw.get("tiebreak")
            Ts = {T for T, _ in res_dist}
            if len(Ts) == 1 and tb is not None:
                (T,) = Ts
                sc = score_for_tb(tb, case) if mkind != "score" else {c: 0 for c in cs}
                legal = set(refs._orders_by_score(T, sc))
                got = {o for (_, o) in res_dist}
                tot = sum(res_dist.values())
                if got != legal:
                    out["viols"].append(_viol("tiebreak_order", label, kw, i,
                                              f"recorded resolutions {sorted(got)} of tie {sorted(T)} under tiebreak={tb} differ from the "
                                              f"orders consistent with that score {sorted(legal)} (scores { {c: str(sc[c]) for c in sorted(T)} })"))
                elif tot > 0 and any(pr / tot != F(1, len(legal)) for pr in res_dist.values()):
                    out["viols"].append(_viol("tiebreak_law", label, kw, i,
                                              f"resolutions of tie {sorted(T)} are not equally likely: "
                                              f"{ {str(o): str(pr / tot) for (_, o), pr in res_dist.items()} }"))
                else:
                    cnt["laws_checked"] += 1
        if any_tb:
            cnt["nontrivial"] += 1
        # (4) seam conformance with the real generators on a slice
        if isinstance(i, int) and i % 37 == 0 and len(okpaths) == len(paths) and len(paths) > 1:
            allowed = {vkit.canon_election(p.result) for p in okpaths}
            for sd in (1, 2, 3):
                chooser.real_seed(sd + i)
                try:
                    e = fn()
                except Exception:
                    continue
                cnt["seam_conformance_runs"] += 1
                if vkit.canon_election(e) not in allowed:
                    raise chooser.ReplayDivergence(
                        f"real-RNG outcome not among scripted outcomes: {label} {kw} {case_json(i)}")
    cnt["states"] += 1
    if isinstance(i, int) and i % 301 == 0:
        out["sample"] = {"case": case_json(i), "configs": cnt["configs"], "paths": cnt["paths"]}
    return out


def finalize(agg, tier):
    return {"coverage": {
        "exhaustive": True,
        "rule": "one case = one profile x all non-random rule configurations x all RNG paths; nontrivial = configurations in "
                "which at least one path records a tiebreak",
        "explanation": "states = profiles; transitions = recorded rounds inspected; traces = complete runs judged",
    }}

"""C06 -- pairwise comparison, dominating tiers and Condorcet consistency.

X4: bounded-exhaustive profiles of untied and tied ballots; definitional oracle (margins by
definition, tiers by checking the definition with brute force over all splits); X1 for
CondoBorda's Borda ties.
"""

from __future__ import annotations

import collections
import itertools
from fractions import Fraction

from engine import chooser, families as fam, refs, vkit

ID = "C06"
LEVEL = "exploration"
CHUNK = 16
F = Fraction
_CASES = None


def build_cases(tier, seed):
    global _CASES
    c3, c4 = fam.cands(3), fam.cands(4)
    R3, R4 = fam.rank_family(3), fam.rank_family(4)
    cs = []
    if tier == "quick":
        cs += fam.prof_list(R3, 3, (1, 2), c3)
        cs += fam.prof_list(R4, 2, (1, 2), c4)
        cs += fam.prof_list(fam.perm_family(4), 3, (1,), c4)
        cs += fam.prof_list(R3, 2, (F(1, 2), F(3, 2)), c3)
        c5 = fam.cands(5)
        cs += fam.prof_list(fam.perm_family(5), 2, (1,), c5)[::5]
        cs += fam.prof_list(fam.rank_family(5)[::7], 2, (1, 2), c5)[::9]
        famtxt = ("Prof(Rank(3),3,{1,2}) + Prof(Rank(4),2,{1,2}) + Prof(Perm(4),3,{1}) + Prof(Rank(3),2,{1/2,3/2}) + every 5th of "
                  "Prof(Perm(5),2,{1}) + a slice of two-type profiles over every 7th ranking of Rank(5)")
    else:
        cs += fam.prof_list(R3, 3, (1, 2, F(1, 2), F(3, 2)), c3)
        cs += fam.prof_list(R4, 3, (1,), c4)
        cs += fam.prof_list(R4, 2, (1, 2, 3), c4)
        c5 = fam.cands(5)
        cs += fam.prof_list(fam.perm_family(5), 3, (1,), c5)
        cs += fam.prof_list(fam.perm_family(5), 2, (1, 2), c5)
        famtxt = ("Prof(Rank(3),3,{1,2,1/2,3/2}) + Prof(Rank(4),3,{1}) + Prof(Rank(4),2,{1,2,3}) + Prof(Perm(5),3,{1}) + "
                  "Prof(Perm(5),2,{1,2})")
    # uncondensed profiles: the same ranking on several ballots with different weights (ballots are not merged first)
    base = fam.prof_list(R3, 2, (1, 2), c3)
    rep = []
    for (cands_, bl) in (base if tier != "quick" else base[::2]):
        rep.append((cands_, bl + ((bl[0][0], 5),)))
        rep.append((cands_, ((bl[-1][0], 3),) + bl))
    b4 = fam.prof_list(R4, 2, (1, 2), c4)
    for (cands_, bl) in b4[:: (40 if tier == "quick" else 8)]:
        rep.append((cands_, bl + ((bl[0][0], 5),)))
    cs += rep
    # ballots with tied positions: a ballot that ties two candidates ranks neither above the other
    from . import common
    cs += list(common.weak_profiles(tier))
    _CASES = cs
    meta = {
        "family": famtxt + " + uncondensed variants (a ranking repeated on another ballot with a different weight) + tied ballots Prof(Weak(3),2,{1,2}); PairwiseComparisonGraph (margins, tiers, Condorcet winner), DominatingSets, CondoBorda x m x all paths",
        "assumptions": ["a ballot that puts two candidates in one tied position contributes to neither direction of that pair",
                        "small scope n<=4 (quick) / n<=5 complete rankings (thorough)"],
    }
    return list(range(len(cs))), meta


def _get(i):
    return _CASES[i] if isinstance(i, int) else i


def case_json(i):
    return fam.case_to_json(_get(i))


def case_from_json(j):
    return fam.case_from_json(j)


witness_case = case_from_json


def _viol(kind, what, i, msg, kw=None, path=None):
    d = {"sig": {"kind": kind, "rule": what}, "msg": f"{what} {kw or ''} on {case_json(i)}: {msg}",
         "case": case_json(i), "config": vkit.jsonable(kw)}
    if path is not None:
        d["choices"] = list(path.choices)
    return d


def run_case(i, tier):
    from votekit.graphs import PairwiseComparisonGraph as PCG

    case = _get(i)
    cs = case[0]
    n = len(cs)
    cnt = collections.Counter()
    out = {"counters": cnt, "viols": []}
    marg = refs.ref_pairwise(case)
    prof = vkit.mk_profile(case)
    cnt["executions"] += 1
    try:
        g = PCG(prof)
        pd = dict(g.pairwise_dict)
        tiers = [set(t) for t in g.dominating_tiers()]
        hcw = g.has_condorcet_winner()
    except Exception as e:
        out["viols"].append(_viol("exception", "PairwiseComparisonGraph", i, f"{type(e).__name__}: {e}"))
        return out
    finally:
        PCG.dominating_tiers.cache_clear()
        PCG.get_condorcet_cycles.cache_clear()
    # margins
    msg = None
    if sorted(g.candidates) != sorted(cs):
        msg = f"graph candidates {g.candidates} != profile candidates {cs}"
    for a, b in itertools.combinations(cs, 2):
        mab = marg[(a, b)]
        if mab == 0:
            if pd.get((a, b)) != 0 or pd.get((b, a)) != 0 or (a, b) not in pd or (b, a) not in pd:
                msg = f"pair {a},{b} is tied (margin 0) but pairwise_dict has {pd.get((a, b))!r} / {pd.get((b, a))!r}"
        else:
            w, l = (a, b) if mab > 0 else (b, a)
            if pd.get((w, l)) != abs(mab) or (l, w) in pd:
                msg = (f"{w} beats {l} by {abs(mab)} but pairwise_dict has ({w},{l}): {pd.get((w, l))!r}, "
                       f"({l},{w}): {pd.get((l, w))!r}")
    if len(pd) != sum(2 if marg[(a, b)] == 0 else 1 for a, b in itertools.combinations(cs, 2)):
        msg = msg or f"pairwise_dict has unexpected keys {sorted(pd)}"
    if msg:
        out["viols"].append(_viol("margins", "PairwiseComparisonGraph", i, msg))
    # tiers by definition
    msg = refs.check_tiers_definition(cs, marg, tiers)
    ref_t = refs.ref_tiers(cs, marg)
    if msg is None and [frozenset(t) for t in tiers] != list(ref_t):
        msg = f"tiers {tiers} satisfy the definition but differ from the SCC computation {ref_t} (oracle self-check)"
    if msg:
        out["viols"].append(_viol("tiers", "dominating_tiers", i, msg))
    top = ref_t[0]
    if hcw != (len(top) == 1):
        out["viols"].append(_viol("condorcet_flag", "has_condorcet_winner", i, f"returned {hcw}, Smith set is {sorted(top)}"))
    try:
        w = g.get_condorcet_winner()
        if len(top) != 1 or w not in top:
            out["viols"].append(_viol("condorcet_winner", "get_condorcet_winner", i, f"returned {w}, Smith set is {sorted(top)}"))
    except ValueError:
        if len(top) == 1:
            out["viols"].append(_viol("condorcet_winner", "get_condorcet_winner", i, f"raised although {sorted(top)} is the Condorcet winner"))
    except Exception as e:
        out["viols"].append(_viol("exception", "get_condorcet_winner", i, f"{type(e).__name__}: {e}"))
    finally:
        pass
    # the same graph object queried again, in another order, must give the same answers (the tiers are cached on the object)
    try:
        again = ([set(t) for t in g.dominating_tiers()], g.has_condorcet_winner())
        try:
            w2 = g.get_condorcet_winner()
        except ValueError:
            w2 = None
        again2 = ([set(t) for t in g.dominating_tiers()], g.has_condorcet_winner(), dict(g.pairwise_dict))
        if again != (tiers, hcw) or again2 != (tiers, hcw, pd) or (w2 is None) != (len(top) != 1):
            out["viols"].append(_viol("query_changes_graph", "PairwiseComparisonGraph", i,
                                      f"tiers {tiers} / Condorcet flag {hcw} became {again2[0]} / {again2[1]} after querying the Condorcet winner"))
    except Exception as e:
        out["viols"].append(_viol("exception", "PairwiseComparisonGraph", i, f"second round of queries raised {type(e).__name__}: {e}"))
    finally:
        PCG.dominating_tiers.cache_clear()
    if len(ref_t) > 1 and any(len(t) > 1 for t in ref_t):
        cnt["nontrivial"] += 1
    elif any(v == 0 for v in marg.values()):
        cnt["nontrivial"] += 1
    # DominatingSets
    p = chooser.run_once(vkit.election_fn("DominatingSets", case, {}))
    cnt["executions"] += 1
    if p.exc is not None:
        out["viols"].append(_viol("exception", "DominatingSets", i, f"{type(p.exc).__name__}: {p.exc}"))
    else:
        st = p.result.election_states[-1]
        el = [frozenset(s) for s in st.elected]
        rem = [frozenset(s) for s in st.remaining if s]
        if el != [top] or rem != list(ref_t[1:]):
            out["viols"].append(_viol("dominating_sets", "DominatingSets", i,
                                      f"elected {el} remaining {rem}; tiers are {ref_t}"))
    # CondoBorda
    borda = refs.ref_borda(case)
    for m in range(1, n + 1):
        cum = 0
        sure = set()
        legal_sets = None
        for t in ref_t:
            if cum + len(t) <= m:
                sure |= t
                cum += len(t)
                if cum == m:
                    legal_sets = {frozenset(sure)}
                    break
            else:
                need = m - cum
                tm = refs.TopM({c: borda[c] for c in t}, need)
                legal_sets = {frozenset(sure | tm.sure | set(x)) for x in itertools.combinations(sorted(tm.tied), tm.need)}
                break
        got_sets = set()
        bad = False
        for p in chooser.explore(vkit.election_fn("CondoBorda", case, dict(m=m))):
            cnt["executions"] += 1
            if p.exc is not None:
                out["viols"].append(_viol("exception", "CondoBorda", i, f"{type(p.exc).__name__}: {p.exc}", dict(m=m), p))
                bad = True
                break
            el = frozenset(vkit.flat(p.result.get_elected()))
            got_sets.add(el)
            # whole tiers in order
            order = vkit.flat(p.result.get_elected())
            tier_of = {c: k for k, t in enumerate(ref_t) for c in t}
            if any(tier_of[order[k]] > tier_of[order[k + 1]] for k in range(len(order) - 1)):
                out["viols"].append(_viol("condo_borda", "CondoBorda", i, f"elected order {order} does not follow the tiers {ref_t}", dict(m=m), p))
                bad = True
                break
        if not bad and got_sets != legal_sets:
            out["viols"].append(_viol("condo_borda", "CondoBorda", i,
                                      f"elected sets over all paths {sorted(map(sorted, got_sets))} != whole tiers in order then higher Borda "
                                      f"{sorted(map(sorted, legal_sets))} (tiers {ref_t}, Borda {vkit.jsonable(borda)})", dict(m=m)))
    PCG.dominating_tiers.cache_clear()
    cnt["states"] += 1
    if isinstance(i, int) and i % 1009 == 0:
        out["sample"] = {"profile": case_json(i), "tiers": [sorted(t) for t in ref_t]}
    return out


def finalize(agg, tier):
    return {"coverage": {
        "exhaustive": True,
        "rule": "one case = one profile; nontrivial = distinct profiles with a multi-member tier below/above another tier (a cycle "
                "or pairwise tie inside a nested structure) or some pairwise tie",
    }}

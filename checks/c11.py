"""C11 -- ballot and profile values are exact, immutable and condense/compare by content.

X4: all combinations of a ballot-attribute alphabet; all sequences (every multiset in every
order) of a mixed ballot alphabet; all pairs of short profiles for == and +.
Runs with the display-frame hook OFF (it inspects profile fields).
"""

from __future__ import annotations

import collections
import itertools
from fractions import Fraction

from engine import vkit

ID = "C11"
LEVEL = "exploration"
CHUNK = 32
F = Fraction
_CASES = None

RANKINGS = [None, (("A",),), (("A",), ("B",)), (("B",), ("A",)), (("A", "B"),), (("A",), ("B", "C")), (("C",), ("B",), ("A",))]
SCORES = [None, {}, {"A": 0}, {"A": 1}, {"A": 0.5, "B": 2}, {"A": 1 / 3}, {"A": F(1, 3), "B": 0, "C": F(5, 7)}]
WEIGHTS = [0, 1, 2, 0.5, 0.1, 1 / 3, F(1, 3), F(1, 10**6), F(999999, 10**6), 10**6 + 0.5, 7]
IDS = [None, "x"]
VSETS = [None, {"v"}]

R1 = (("A",), ("B",))
R2 = (("B",),)
R3 = (("A", "B"),)
ALPHA = [
    (R1, None, 1), (R1, None, 2), (R1, (("A", 1),), 1), (None, (("A", 1),), 1), (None, (("A", 1),), F(1, 2)),
    (R2, None, 1), (R1, (("A", 2),), 1), (None, None, 1), (R3, None, F(3, 2)), (None, (("A", 1), ("B", F(1, 2))), 1),
    (None, (("B", F(1, 2)), ("A", 1)), 2),  # same scores as the previous entry, other key order
    (R2, None, F(1, 999983)), (R2, None, F(5, 999979)),  # same content as entry 5; the exact sum has a denominator near 10**12
    (R2, (('C', 1),), 1),  # ranked and scored, the scores naming a candidate the ranking does not list
]


def build_cases(tier, seed):
    global _CASES
    cs = []
    for combo in itertools.product(range(len(RANKINGS)), range(len(SCORES)), range(len(WEIGHTS)), range(2), range(2)):
        cs.append(("ballot", combo))
    maxlen = 3 if tier == "quick" else 4
    for L in range(0, maxlen + 1):
        for seq in itertools.product(range(len(ALPHA)), repeat=L):
            cs.append(("seq", seq))
    short = [s for L in range(0, 3) for s in itertools.product(range(len(ALPHA)), repeat=L)]
    for a in short:
        cs.append(("pairs", a))
    for c in (("A", "A"), ("A", "B", "A"), ("A", "B"), ()):
        cs.append(("cands", c))
    _CASES = cs
    meta = {
        "family": f"ballots: {len(RANKINGS)} rankings x {len(SCORES)} score dicts x {len(WEIGHTS)} weights x id x voter_set (all combinations); "
                  f"profiles: every sequence of length <= {maxlen} over a 14-ballot alphabet mixing ranked, scored, ranked+scored and empty ballots "
                  "(i.e. every multiset in every order); == and + on all pairs of sequences of length <= 2; duplicate candidate tuples",
        "assumptions": ["runs with VOTEKIT_VERIF unset (no hook)",
                        "profile equality is judged on positive-weight contents",
                        "Fractions with denominator above one million are outside the 'unchanged' claim and not in the alphabet"],
    }
    return list(range(len(cs))), meta


def _get(i):
    return _CASES[i] if isinstance(i, int) else i


def case_json(i):
    kind, c = _get(i)
    return {"kind": kind, "data": vkit.jsonable(list(c))}


def case_from_json(j):
    d = j["data"]
    return (j["kind"], tuple(d))


witness_case = case_from_json


def _viol(kind, what, i, msg):
    return {"sig": {"kind": kind, "rule": what}, "msg": f"{what} on {case_json(i)}: {msg}", "case": case_json(i)}


def expected_num(x):
    if isinstance(x, Fraction):
        return x
    if isinstance(x, int):
        return F(x)
    return F(x).limit_denominator(10**6)


def mk(entry, **kw):
    from votekit.ballot import Ballot

    r, sc, w = entry
    args = dict(weight=w)
    if r is not None:
        args["ranking"] = tuple(frozenset(p) for p in r)
    if sc is not None:
        args["scores"] = dict(sc)
    args.update(kw)
    return Ballot(**args)


def content(b):
    return (vkit.canon_ranking(b.ranking) if b.ranking else None,
            tuple(sorted(b.scores.items())) if b.scores else None)


def ref_condense(seq):
    d = {}
    for k in seq:
        r, sc, w = ALPHA[k]
        key = (tuple(tuple(sorted(p)) for p in r) if r else None,
               tuple(sorted((c, F(v)) for c, v in sc if v != 0)) if sc else None)
        d[key] = d.get(key, F(0)) + F(w)
    return d


def run_ballot(i, combo, cnt, out):
    from votekit.ballot import Ballot

    ri, si, wi, ii, vi = combo
    r, sc, w, bid, vs = RANKINGS[ri], SCORES[si], WEIGHTS[wi], IDS[ii], VSETS[vi]
    args = {}
    if r is not None:
        args["ranking"] = tuple(frozenset(p) for p in r)
    if sc is not None:
        args["scores"] = dict(sc)
    args["weight"] = w
    if bid is not None:
        args["id"] = bid
    if vs is not None:
        args["voter_set"] = set(vs)
    cnt["executions"] += 1
    try:
        b = Ballot(**args)
    except Exception as e:
        out["viols"].append(_viol("exception", "Ballot", i, f"{type(e).__name__}: {e}"))
        return
    ew = expected_num(w)
    if b.weight != ew or not isinstance(b.weight, Fraction):
        out["viols"].append(_viol("weight", "Ballot", i, f"weight {w!r} stored as {b.weight!r}, expected {ew}"))
    es = {c: expected_num(v) for c, v in (sc or {}).items() if v != 0} or None
    if (b.scores or None) != es or (b.scores and any(not isinstance(v, Fraction) for v in b.scores.values())):
        out["viols"].append(_viol("scores", "Ballot", i, f"scores {sc!r} stored as {b.scores!r}, expected {es}"))
    if b.ranking != args.get("ranking") or b.id != bid or b.voter_set != (set(vs) if vs else None):
        out["viols"].append(_viol("fields", "Ballot", i, "ranking / id / voter_set not stored as given"))
    # immutability
    for fld, val in (("ranking", (frozenset({"Z"}),)), ("weight", F(9)), ("voter_set", {"q"}), ("id", "y"), ("scores", {"Z": F(1)})):
        before = getattr(b, fld)
        try:
            setattr(b, fld, val)
            out["viols"].append(_viol("mutable", "Ballot", i, f"attribute {fld} could be reassigned"))
        except Exception:
            pass
        if getattr(b, fld) != before:
            out["viols"].append(_viol("mutable", "Ballot", i, f"attribute {fld} changed"))
    if isinstance(w, float) or (sc and any(isinstance(v, float) for v in sc.values())):
        cnt["nontrivial"] += 1


def run_seq(i, seq, cnt, out):
    from votekit.pref_profile import PreferenceProfile

    ballots = tuple(mk(ALPHA[k]) for k in seq)
    cnt["executions"] += 1
    try:
        p = PreferenceProfile(ballots=ballots)
    except Exception as e:
        out["viols"].append(_viol("exception", "PreferenceProfile", i, f"{type(e).__name__}: {e}"))
        return
    # derived fields
    tw = sum((F(ALPHA[k][2]) for k in seq), F(0))
    cast = set()
    for k in seq:
        r, sc, w = ALPHA[k]
        if w > 0:
            if r:
                cast.update(c for pos in r for c in pos)
            if sc:
                cast.update(c for c, v in sc if v != 0)
    if p.num_ballots != len(seq) or p.total_ballot_wt != tw or set(p.candidates_cast) != cast or len(p.candidates_cast) != len(cast):
        out["viols"].append(_viol("derived", "PreferenceProfile", i,
                                  f"num_ballots={p.num_ballots} total={p.total_ballot_wt} cast={p.candidates_cast}; ballots imply {len(seq)}, {tw}, {sorted(cast)}"))
    for fld, val in (("ballots", ()), ("candidates", ("Z",)), ("num_ballots", 99), ("total_ballot_wt", F(99)), ("candidates_cast", ("Z",))):
        before = getattr(p, fld)
        try:
            setattr(p, fld, val)
            out["viols"].append(_viol("mutable", "PreferenceProfile", i, f"attribute {fld} could be reassigned"))
        except Exception:
            pass
        if getattr(p, fld) != before:
            out["viols"].append(_viol("mutable", "PreferenceProfile", i, f"attribute {fld} changed"))
    # condense
    exp = ref_condense(seq)
    try:
        c1 = p.condense_ballots()
        c2 = c1.condense_ballots()
    except Exception as e:
        out["viols"].append(_viol("exception", "condense_ballots", i, f"{type(e).__name__}: {e}"))
        return
    got = {}
    dup = False
    for b in c1.ballots:
        k = content(b)
        if k in got:
            dup = True
        got[k] = got.get(k, F(0)) + b.weight
    if dup:
        out["viols"].append(_viol("condense_distinct", "condense_ballots", i, "condensed ballots are not pairwise distinct in content"))
    if got != exp:
        out["viols"].append(_viol("condense_weights", "condense_ballots", i,
                                  f"content weights after condensing {vkit.jsonable(sorted(got.items(), key=repr))} != before {vkit.jsonable(sorted(exp.items(), key=repr))}"))
    got2 = sorted(((content(b), b.weight) for b in c2.ballots), key=repr)
    got1 = sorted(((content(b), b.weight) for b in c1.ballots), key=repr)
    if got1 != got2:
        out["viols"].append(_viol("condense_idempotent", "condense_ballots", i, "condensing again changes the profile"))
    if c1.candidates != p.candidates and set(c1.candidates) != set(p.candidates):
        out["viols"].append(_viol("condense_candidates", "condense_ballots", i, f"candidates changed {p.candidates} -> {c1.candidates}"))
    if len(set(seq)) < len(seq) or len({(ALPHA[k][0]) for k in seq}) < len(seq):
        cnt["nontrivial"] += 1


def run_pairs(i, a, cnt, out):
    from votekit.pref_profile import PreferenceProfile

    short = [s for L in range(0, 3) for s in itertools.product(range(len(ALPHA)), repeat=L)]
    pa = PreferenceProfile(ballots=tuple(mk(ALPHA[k]) for k in a))
    ea = {k: v for k, v in ref_condense(a).items() if v > 0}
    for b in short:
        cnt["executions"] += 1
        pb = PreferenceProfile(ballots=tuple(mk(ALPHA[k]) for k in b))
        eb = {k: v for k, v in ref_condense(b).items() if v > 0}
        try:
            eq = (pa == pb)
        except Exception as e:
            out["viols"].append(_viol("exception", "PreferenceProfile.__eq__", i, f"{type(e).__name__}: {e} (other={b})"))
            return
        if eq != (ea == eb):
            out["viols"].append(_viol("equality", "PreferenceProfile.__eq__", i,
                                      f"compared with sequence {list(b)}: == returned {eq}, contents equal: {ea == eb}"))
            return
        try:
            s = pa + pb
        except Exception as e:
            out["viols"].append(_viol("exception", "PreferenceProfile.__add__", i, f"{type(e).__name__}: {e}"))
            return
        got = {}
        for x in s.ballots:
            got[content(x)] = got.get(content(x), F(0)) + x.weight
        exp = ref_condense(tuple(a) + tuple(b))
        if got != exp:
            out["viols"].append(_viol("addition", "PreferenceProfile.__add__", i, f"adding sequence {list(b)} does not add the content weights"))
            return
    cnt["nontrivial"] += 1


def run_cands(i, c, cnt, out):
    from votekit.pref_profile import PreferenceProfile

    cnt["executions"] += 1
    dup = len(set(c)) != len(c)
    try:
        PreferenceProfile(ballots=(mk(ALPHA[0]),), candidates=tuple(c))
        if dup:
            out["viols"].append(_viol("duplicates", "PreferenceProfile", i, "duplicate candidates accepted"))
    except ValueError:
        if not dup:
            out["viols"].append(_viol("duplicates", "PreferenceProfile", i, "unique candidates rejected"))
    except Exception as e:
        out["viols"].append(_viol("exception", "PreferenceProfile", i, f"{type(e).__name__}: {e}"))
    cnt["nontrivial"] += 1 if dup else 0


def run_case(i, tier):
    kind, c = _get(i)
    cnt = collections.Counter()
    out = {"counters": cnt, "viols": []}
    with vkit.hook_off():
        if kind == "ballot":
            run_ballot(i, c, cnt, out)
        elif kind == "seq":
            run_seq(i, c, cnt, out)
        elif kind == "pairs":
            run_pairs(i, c, cnt, out)
        else:
            run_cands(i, c, cnt, out)
    cnt["states"] += 1
    if isinstance(i, int) and i % 701 == 0:
        out["sample"] = case_json(i)
    return out


def finalize(agg, tier):
    return {"coverage": {
        "exhaustive": True,
        "rule": "cases = ballot attribute combinations, ballot sequences, left operands of ==/+ (each against all short sequences); "
                "nontrivial = ballots with a float weight/score, sequences with a repeated ranking or content, pair rows, duplicate-candidate tuples",
    }}

"""C17 -- randomised rules and random tiebreaks draw from the documented distributions.

X1: the complete choice tree of every run is enumerated with exact edge probabilities, so
the law of the winner sequence is obtained as a finite sum and compared with the closed
form (exact rationals for RandomDictator, 1e-12 for BoostedRandomDictator's float squares).
"""

from __future__ import annotations

import collections
import itertools
import math
from fractions import Fraction

from engine import chooser, families as fam, refs, vkit
from . import common
from .c01 import _remove

ID = "C17"
LEVEL = "model_checking"
CHUNK = 4
F = Fraction
_CASES = None


def build_cases(tier, seed):
    global _CASES
    c3 = fam.cands(3)
    W3 = fam.weak_family(3)
    cs = []
    if tier == "quick":
        cs += [("rd", c) for c in fam.prof_list(W3, 2, (1, 2, F(1, 2)), c3)]
        famtxt = "Prof(Weak(3),2,{1,2,1/2})"
    else:
        cs += [("rd", c) for c in fam.prof_list(W3, 3, (1, 2), c3)]
        cs += [("rd", c) for c in fam.prof_list(W3, 2, (F(1, 2), F(1, 3)), c3)]
        cs += [("rd", c) for c in fam.prof_list(fam.rank_family(4), 2, (1, 2), fam.cands(4))]
        famtxt = "Prof(Weak(3),3,{1,2}) + Prof(Weak(3),2,{1/2,1/3}) + Prof(Rank(4),2,{1,2})"
    # uncondensed variants: a ranking repeated on another ballot with a different weight
    base = fam.prof_list(W3, 2, (1, 2), c3)
    for (cands_, bl) in base[:: (5 if tier == "quick" else 1)]:
        cs.append(("rd", (cands_, bl + ((bl[0][0], 5),))))
        cs.append(("rd", (cands_, ((bl[-1][0], F(1, 3)),) + bl)))
    famtxt += " + uncondensed variants (a ranking repeated on another ballot)"
    for tag, c in common.rank_profiles(tier, rational=False, extra4=False):
        cs.append(("tb", c))
    for c in common.weak_profiles("quick"):
        cs.append(("tbw", c))
    # non-dyadic weights (exact ties that float totals would miss), with a float score vector for Borda
    nine = fam.bullet_family(3) + fam.perm_family(3)
    thirds = (F(2, 3), 3, F(8, 3))
    for combo in itertools.combinations(range(len(nine)), 3):
        for ws in (thirds, (thirds[2], thirds[0], thirds[1])):
            cs.append(("tbw", (c3, tuple((nine[k], w) for k, w in zip(combo, ws)))))
    for c in fam.prof_list(fam.rank_family(3), 2, (F(1, 3), F(2, 3)), c3)[:: (3 if tier == "quick" else 1)]:
        cs.append(("tbw", c))
    for k in (2, 3, 4):
        cs.append(("set", k))
    _CASES = cs
    meta = {
        "family": famtxt + " x m x {RandomDictator, BoostedRandomDictator} (exact law of the winner sequence); "
                  "random tiebreaks: " + common.family_text(tier, rational=False, extra4=False) + " and Prof(Weak(3),2,{1,2}) and three-ballot profiles over Bullet(3)+Perm(3) with weights (2/3,3,8/3) x "
                  "{Plurality, Borda (conventional vector and the float vector (1.0,0.5,0.0)), STV/IRV/SequentialRCV ties of every round, conditional on the rounds before} with tiebreak='random'; tiebreak_set on sets of size 2..4",
        "assumptions": ["laws of random.choices / random.sample / np.random.choice / a uniform variate are trusted (E1 table)",
                        "states with no first-place weight left are outside C17 (law undefined), judged by C01",
                        "BoostedRandomDictator computes its squares in float64: compared within 1e-12"],
    }
    return list(range(len(cs))), meta


def _get(i):
    return _CASES[i] if isinstance(i, int) else i


def case_json(i):
    kind, c = _get(i)
    if kind == "set":
        return {"kind": "set", "size": c}
    d = fam.case_to_json(c)
    d["kind"] = kind
    return d


def case_from_json(j):
    if j.get("kind") == "set":
        return ("set", j["size"])
    return (j.get("kind", "rd"), fam.case_from_json(j))


witness_case = case_from_json


def _viol(kind, label, kw, i, msg):
    return {"sig": {"kind": kind, "rule": label}, "msg": f"{label} {kw} on {case_json(i)}: {msg}",
            "case": case_json(i), "config": vkit.jsonable(kw)}


def ref_rd_step(case):
    """P(next winner) under RandomDictator: share of current first-place weight; None if undefined."""
    tot = sum((F(w) for _, w in case[1]), F(0))
    if tot == 0:
        return None
    fp = refs.ref_fpv(case)
    return {c: v / tot for c, v in fp.items() if v > 0}


def ref_sq_step(case):
    tot = sum((F(w) for _, w in case[1]), F(0))
    if tot == 0:
        return None
    fp = refs.ref_fpv(case)
    sq = {c: (v / tot) ** 2 for c, v in fp.items() if v > 0}
    s = sum(sq.values())
    return {c: v / s for c, v in sq.items()}


def ref_seq(case, m, boosted):
    """Distribution over winner sequences, or None if the law is undefined somewhere."""
    res = {}

    def rec(cur, seq, p):
        if len(seq) == m:
            res[seq] = res.get(seq, F(0)) + p
            return True
        c = len(cur[0])
        if boosted and c == 1:
            return rec(_remove(cur, {cur[0][0]}), seq + (cur[0][0],), p)
        rd = ref_rd_step(cur)
        if rd is None:
            return False
        if boosted:
            sq = ref_sq_step(cur)
            a = F(1, c - 1)
            step = {}
            for x in set(rd) | set(sq):
                step[x] = a * sq.get(x, 0) + (1 - a) * rd.get(x, 0)
        else:
            step = rd
        for x, px in step.items():
            if px == 0:
                continue
            if not rec(_remove(cur, {x}), seq + (x,), p * px):
                return False
        return True

    ok = rec(case, (), F(1))
    return res if ok else None


def run_rd(i, case, cnt, out):
    n = len(case[0])
    for rule, boosted in (("RandomDictator", False), ("BoostedRandomDictator", True)):
        for m in range(1, n + 1):
            exp = ref_seq(case, m, boosted)
            if exp is None:
                cnt["skipped_law_undefined"] += 1
                continue
            kw = dict(m=m)
            fn = vkit.election_fn(rule, case, kw)
            got = {}
            bad = False
            for p in chooser.explore_all(fn, max_paths=200000):
                cnt["executions"] += 1
                cnt["paths"] += 1
                if p.exc is not None:
                    out["viols"].append(_viol("exception", rule, kw, i, f"{type(p.exc).__name__}: {p.exc} where the law is defined"))
                    bad = True
                    break
                seq = tuple(str(c) for c in vkit.flat(p.result.get_elected()))
                got[seq] = got.get(seq, 0) + p.prob
                cnt["transitions"] += len(p.result.election_states) - 1
            if bad:
                continue
            cnt["traces"] += 1
            cnt["laws_checked"] += 1
            if len(exp) > 1:
                cnt["nontrivial"] += 1
            keys = set(got) | set(exp)
            if boosted:
                diff = max(abs(float(got.get(k, 0)) - float(exp.get(k, 0))) for k in keys)
                okk = diff < 1e-12
            else:
                okk = all(got.get(k, 0) == exp.get(k, 0) for k in keys)
            if not okk:
                k = sorted(keys, key=lambda k: -abs(float(got.get(k, 0)) - float(exp.get(k, 0))))[0]
                out["viols"].append(_viol("law", rule, kw, i,
                                          f"P(winner sequence {list(k)}) = {got.get(k, 0)} but the documented law gives {exp.get(k, 0)}"))


def run_tb(i, case, kind, cnt, out):
    cs = case[0]
    n = len(cs)
    E = vkit.election_fn
    # single-round rules: every tied candidate equally likely to take the contested seats
    fvec = (1.0, 0.5, 0.0)
    for rule, scf, extra in (("Plurality", refs.ref_fpv, {}), ("Borda", refs.ref_borda, {}),
                             ("Borda", lambda c: refs.ref_positional(c, fvec), {"score_vector": fvec})):
        sc = scf(case)
        for m in range(1, n + 1):
            t = refs.TopM(sc, m)
            if not t.straddles:
                continue
            kw = dict(m=m, tiebreak="random", **extra)
            pe = {c: F(0) for c in t.tied}
            res = {}
            bad = False
            for p in chooser.explore_all(E(rule, case, kw)):
                cnt["executions"] += 1
                if p.exc is not None:
                    bad = True
                    break
                el = set(vkit.flat(p.result.get_elected()))
                for c in t.tied & el:
                    pe[c] += p.prob
                tbs = p.result.election_states[1].tiebreaks
                for T, r in tbs.items():
                    key = tuple(sorted(x)[0] for x in r)
                    res[key] = res.get(key, F(0)) + p.prob
            if bad:
                cnt["skipped_exception"] += 1
                continue
            cnt["laws_checked"] += 1
            cnt["nontrivial"] += 1
            exp = F(t.need, len(t.tied))
            if any(v != exp for v in pe.values()):
                out["viols"].append(_viol("tiebreak_law", rule, kw, i,
                                          f"tied candidates {sorted(t.tied)} take the contested seat(s) with probabilities "
                                          f"{ {c: str(v) for c, v in sorted(pe.items())} }, expected {exp} each"))
            k = math.factorial(len(t.tied))
            if len(res) != k or any(v != F(1, k) for v in res.values()):
                out["viols"].append(_viol("tiebreak_law", rule, kw, i,
                                          f"random resolutions are not uniform over the {k} orders: { {str(a): str(b) for a, b in res.items()} }"))
    if kind != "tb":
        return
    # STV family: first-round ties
    fp = refs.ref_fpv(case)
    N = sum((F(w) for _, w in case[1]), F(0))
    for rule in ("STV", "IRV", "SequentialRCV"):
        for m in ((1,) if rule == "IRV" else range(1, n + 1)):
            thr = math.floor(N / (m + 1)) + 1
            above = [c for c in cs if fp[c] >= thr]
            for sim in ((True,) if rule == "IRV" else (True, False)):
                vrule, kw, tr = common.stv_ctor(rule, m, "droop", sim, "random")
                if above:
                    top = max(fp[c] for c in above)
                    T = [c for c in above if fp[c] == top]
                    if sim or len(T) < 2:
                        continue
                    mode = "elect"
                elif n == m:
                    continue
                else:
                    low = min(fp.values())
                    T = [c for c in cs if fp[c] == low]
                    if len(T) < 2:
                        continue
                    mode = "elim"
                pr = {c: F(0) for c in T}
                bad = False
                for p in chooser.explore_all(E(vrule, case, kw)):
                    cnt["executions"] += 1
                    if p.exc is not None:
                        bad = True
                        break
                    st = p.result.election_states[1]
                    who = vkit.flat(st.elected if mode == "elect" else st.eliminated)
                    if len(who) != 1 or who[0] not in pr:
                        bad = True
                        break
                    pr[who[0]] += p.prob
                if bad:
                    cnt["skipped_exception"] += 1
                    continue
                cnt["laws_checked"] += 1
                cnt["nontrivial"] += 1
                if any(v != F(1, len(T)) for v in pr.values()):
                    out["viols"].append(_viol("tiebreak_law", rule, kw, i,
                                              f"first-round {mode} tie {sorted(T)}: probabilities { {c: str(v) for c, v in sorted(pr.items())} }, "
                                              f"expected {F(1, len(T))} each"))


def run_rounds(i, case, cnt, out):
    """Every round of every STV-family count: given the rounds so far, a tie for elimination is resolved uniformly among the
    tied candidates with the fewest initial first-place votes, and a one-by-one election tie (tiebreak='random') uniformly
    among the tied leaders -- whether or not the round records a tiebreak."""
    cs = case[0]
    n = len(cs)
    fp0 = refs.ref_fpv(case)
    for rule in ("STV", "IRV", "SequentialRCV"):
        for m in ((1,) if rule == "IRV" else range(1, n + 1)):
            for sim in ((True,) if rule == "IRV" else (True, False)):
                vrule, kw, tr = common.stv_ctor(rule, m, "droop", sim, "random")
                tree = {}
                bad = False
                for p in chooser.explore_all(vkit.election_fn(vrule, case, kw), max_paths=20000):
                    cnt["executions"] += 1
                    if p.exc is not None:
                        bad = True
                        break
                    states = vkit.canon_election(p.result)
                    for r in range(1, len(states)):
                        ev = (states[r][2], states[r][3])
                        d = tree.setdefault(states[:r], {})
                        d[ev] = d.get(ev, F(0)) + p.prob
                if bad:
                    cnt["skipped_exception"] += 1
                    continue
                for prefix, evs in tree.items():
                    prev = prefix[-1]
                    live = [c for g in prev[1] for c in g]
                    sc = dict(prev[5])
                    if len(live) < 2 or any(c not in sc for c in live):
                        continue
                    tot = sum(evs.values())
                    elim_only = all(not [c for g in el for c in g] and len([c for g in xs for c in g]) == 1 for el, xs in evs)
                    elect_one = all(len([c for g in el for c in g]) == 1 and not [c for g in xs for c in g] for el, xs in evs)
                    if elim_only:
                        low = min(sc[c] for c in live)
                        T = [c for c in live if sc[c] == low]
                        if len(T) < 2:
                            continue
                        lowest0 = min(fp0[c] for c in T)
                        L = sorted(c for c in T if fp0[c] == lowest0)
                        got = {[c for g in xs for c in g][0]: pr / tot for (el, xs), pr in evs.items()}
                        what = "elimination"
                    elif elect_one and not sim and len(prefix) >= 1:
                        top = max(sc[c] for c in live)
                        T = [c for c in live if sc[c] == top]
                        if len(T) < 2:
                            continue
                        L = sorted(T)
                        got = {[c for g in el for c in g][0]: pr / tot for (el, xs), pr in evs.items()}
                        what = "election"
                        if not set(got) <= set(T):
                            continue  # elected without a tie at the top (seats = candidates left): not a tiebreak
                    else:
                        continue
                    cnt["laws_checked"] += 1
                    cnt["round_ties_checked"] += 1
                    exp = {c: F(1, len(L)) for c in L}
                    if got != exp:
                        out["viols"].append(_viol("tiebreak_law", rule, kw, i,
                                                  f"round {len(prefix)}: {what} tie {sorted(T)} on tallies { {c: str(sc[c]) for c in sorted(T)} } is resolved with "
                                                  f"probabilities { {c: str(v) for c, v in sorted(got.items())} }, expected { {c: str(v) for c, v in exp.items()} }"))
                        return


def run_set(i, k, cnt, out):
    from votekit.utils import tiebreak_set

    T = frozenset(fam.cands(k))
    res = {}
    for p in chooser.explore_all(lambda: tiebreak_set(T, None, "random")):
        cnt["executions"] += 1
        if p.exc is not None:
            out["viols"].append(_viol("exception", "tiebreak_set", {"size": k}, i, str(p.exc)))
            return
        key = tuple(sorted(x)[0] for x in p.result)
        res[key] = res.get(key, F(0)) + p.prob
    kf = math.factorial(k)
    cnt["laws_checked"] += 1
    cnt["nontrivial"] += 1
    if len(res) != kf or any(v != F(1, kf) for v in res.values()) or any(sorted(o) != sorted(T) for o in res):
        out["viols"].append(_viol("tiebreak_law", "tiebreak_set", {"size": k}, i,
                                  f"random tiebreak of {sorted(T)} is not uniform over the {kf} strict orders: {len(res)} outcomes"))


def run_case(i, tier):
    kind, c = _get(i)
    cnt = collections.Counter()
    out = {"counters": cnt, "viols": []}
    if kind == "rd":
        run_rd(i, c, cnt, out)
    elif kind in ("tb", "tbw"):
        run_tb(i, c, kind, cnt, out)
        if kind == "tb":
            run_rounds(i, c, cnt, out)
    else:
        run_set(i, c, cnt, out)
    cnt["states"] += 1
    if isinstance(i, int) and i % 499 == 0:
        out["sample"] = case_json(i)
    return out


def finalize(agg, tier):
    return {"coverage": {
        "exhaustive": True,
        "rule": "one case = one profile (or tie set); the full choice tree of each run is enumerated and the exact law compared; "
                "nontrivial = laws with more than one outcome",
        "explanation": "states = profiles; transitions = rounds executed; traces = (rule, m) laws compared",
    }}

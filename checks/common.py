"""Shared families and configuration menus for the election checks."""

from __future__ import annotations

import itertools
from fractions import Fraction

from engine import families as fam

H = Fraction(1, 2)
TH = Fraction(3, 2)
THIRD = Fraction(1, 3)


def rank_profiles(tier, rational=True, extra4=True):
    """Profile cases of untied ballots for the STV-family checks.

    Returns list of (tag, case); tag 'int' = integer weights, 'rat' = rational weights.
    """
    out = []
    c3 = fam.cands(3)
    c2 = fam.cands(2)
    c1 = fam.cands(1)
    R3 = fam.rank_family(3)
    R2 = fam.rank_family(2)
    R1 = fam.rank_family(1)
    if tier == "quick":
        out += [("int", c) for c in fam.prof_list(R3, 2, (1, 2), c3)]
        out += [("int", c) for c in fam.prof_list(R2, 3, (1, 2), c2)]
        out += [("int", c) for c in fam.prof_list(R1, 1, (1, 2), c1)]
        if rational:
            out += [("rat", c) for c in fam.prof_list(R3, 2, (H, TH), c3)]
    else:
        out += [("int", c) for c in fam.prof_list(R3, 3, (1, 2, 3), c3)]
        out += [("int", c) for c in fam.prof_list(R2, 3, (1, 2), c2)]
        out += [("int", c) for c in fam.prof_list(R1, 1, (1, 2), c1)]
        if extra4:
            c4 = fam.cands(4)
            out += [("int", c) for c in fam.prof_list(fam.rank_family(4), 2, (1, 2), c4)]
        if rational:
            out += [("rat", c) for c in fam.prof_list(R3, 2, (H, TH, THIRD), c3)]
    return out


def family_text(tier, rational=True, extra4=True):
    if tier == "quick":
        s = "Prof(Rank(3),2,{1,2}) + Prof(Rank(2),3,{1,2}) + Prof(Rank(1),1,{1,2})"
        if rational:
            s += " + Prof(Rank(3),2,{1/2,3/2})"
    else:
        s = "Prof(Rank(3),3,{1,2,3}) + Prof(Rank(2),3,{1,2}) + Prof(Rank(1),1,{1,2})"
        if extra4:
            s += " + Prof(Rank(4),2,{1,2})"
        if rational:
            s += " + Prof(Rank(3),2,{1/2,3/2,1/3})"
    return s


TBS = (None, "random", "borda", "first_place")


def stv_configs(n, tag, tbs=TBS, quotas=("droop", "hare"), rules=("STV", "STVrandom", "SequentialRCV", "IRV")):
    """All (rule, cfg) for the STV family on n candidates."""
    for rule in rules:
        if rule == "STVrandom" and tag != "int":
            continue
        ms = (1,) if rule == "IRV" else tuple(range(1, n + 1))
        for m in ms:
            for q in quotas:
                sims = (True,) if rule == "IRV" else (True, False)
                for sim in sims:
                    for tb in tbs:
                        yield rule, m, q, sim, tb


def stv_ctor(rule, m, q, sim, tb):
    """(votekit rule name, kwargs, reference transfer name)."""
    if rule == "STV":
        return "STV", dict(m=m, quota=q, simultaneous=sim, tiebreak=tb, transfer="fractional"), "fractional"
    if rule == "STVrandom":
        return "STV", dict(m=m, quota=q, simultaneous=sim, tiebreak=tb, transfer="random"), "random"
    if rule == "SequentialRCV":
        return "SequentialRCV", dict(m=m, quota=q, simultaneous=sim, tiebreak=tb), "full"
    if rule == "IRV":
        return "IRV", dict(quota=q, tiebreak=tb), "fractional"
    raise ValueError(rule)

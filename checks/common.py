"""Shared families and configuration menus for the election checks."""

from __future__ import annotations

import itertools
from fractions import Fraction

from engine import families as fam

H = Fraction(1, 2)
TH = Fraction(3, 2)
THIRD = Fraction(1, 3)


def rank_profiles(tier, rational=True, extra4=True):
    """Profile cases of untied ballots for the STV-family checks.

    Returns list of (tag, case); tag 'int' = integer weights, 'rat' = rational weights.
    """
    out = []
    c3 = fam.cands(3)
    c2 = fam.cands(2)
    c1 = fam.cands(1)
    R3 = fam.rank_family(3)
    R2 = fam.rank_family(2)
    R1 = fam.rank_family(1)
    if tier == "quick":
        out += [("int", c) for c in fam.prof_list(R3, 2, (1, 2), c3)]
        out += [("int", c) for c in fam.prof_list(R2, 3, (1, 2), c2)]
        out += [("int", c) for c in fam.prof_list(R1, 1, (1, 2), c1)]
        # uncondensed profiles: a ranking repeated on a further ballot with another weight
        base = fam.prof_list(R3, 2, (1, 2), c3)
        out += [("int", (cs_, bl + ((bl[0][0], 3),))) for (cs_, bl) in base[30::7]]
        out += [("int", (cs_, ((bl[-1][0], 1),) + bl)) for (cs_, bl) in base[33::11]]
        if rational:
            out += [("rat", c) for c in fam.prof_list(R3, 2, (H, TH), c3)]
            # weights around one million: transfer values whose denominators exceed 10**6 (exactness of Fraction weights)
            out += [("rat", c) for c in fam.prof_list(R3, 2, (1000003, 999983), c3)[::9]]
            # weights that differ by one unit beyond double precision: tallies that are distinct only in exact arithmetic
            out += [("rat", c) for c in fam.prof_list(R3, 2, (2**53, 2**53 + 1), c3)[::9]]
    else:
        out += [("int", c) for c in fam.prof_list(R3, 3, (1, 2, 3), c3)]
        out += [("int", c) for c in fam.prof_list(R2, 3, (1, 2), c2)]
        out += [("int", c) for c in fam.prof_list(R1, 1, (1, 2), c1)]
        # uncondensed profiles: a ranking repeated on a further ballot with another weight
        base = fam.prof_list(R3, 2, (1, 2), c3)
        out += [("int", (cs_, bl + ((bl[0][0], 3),))) for (cs_, bl) in base[30::2]]
        out += [("int", (cs_, ((bl[-1][0], 1),) + bl)) for (cs_, bl) in base[31::2]]
        if extra4:
            c4 = fam.cands(4)
            out += [("int", c) for c in fam.prof_list(fam.rank_family(4), 2, (1, 2), c4)]
        if rational:
            out += [("rat", c) for c in fam.prof_list(R3, 2, (H, TH, THIRD), c3)]
            out += [("rat", c) for c in fam.prof_list(R3, 2, (1000003, 999983), c3)]
            out += [("rat", c) for c in fam.prof_list(R3, 2, (2**53, 2**53 + 1), c3)[::3]]
    return out


def family_text(tier, rational=True, extra4=True):
    if tier == "quick":
        s = ("Prof(Rank(3),2,{1,2}) + Prof(Rank(2),3,{1,2}) + Prof(Rank(1),1,{1,2}) + uncondensed variants of a slice of "
             "Prof(Rank(3),2,{1,2}) (one ranking repeated on a third ballot)")
        if rational:
            s += " + Prof(Rank(3),2,{1/2,3/2}) + every 9th of Prof(Rank(3),2,{1000003,999983}) and of Prof(Rank(3),2,{2^53,2^53+1})"
    else:
        s = ("Prof(Rank(3),3,{1,2,3}) + Prof(Rank(2),3,{1,2}) + Prof(Rank(1),1,{1,2}) + uncondensed variants of the two-type profiles of "
             "Prof(Rank(3),2,{1,2}) (one ranking repeated on a third ballot)")
        if extra4:
            s += " + Prof(Rank(4),2,{1,2})"
        if rational:
            s += " + Prof(Rank(3),2,{1/2,3/2,1/3}) + Prof(Rank(3),2,{1000003,999983}) + every 3rd of Prof(Rank(3),2,{2^53,2^53+1})"
    return s


TBS = (None, "random", "borda", "first_place")


def stv_configs(n, tag, tbs=TBS, quotas=("droop", "hare"), rules=("STV", "STVrandom", "SequentialRCV", "IRV")):
    """All (rule, cfg) for the STV family on n candidates."""
    for rule in rules:
        if rule == "STVrandom" and tag != "int":
            continue
        ms = (1,) if rule == "IRV" else tuple(range(1, n + 1))
        for m in ms:
            for q in quotas:
                sims = (True,) if rule == "IRV" else (True, False)
                for sim in sims:
                    for tb in tbs:
                        yield rule, m, q, sim, tb


def stv_ctor(rule, m, q, sim, tb):
    """(votekit rule name, kwargs, reference transfer name)."""
    if rule == "STV":
        return "STV", dict(m=m, quota=q, simultaneous=sim, tiebreak=tb, transfer="fractional"), "fractional"
    if rule == "STVrandom":
        return "STV", dict(m=m, quota=q, simultaneous=sim, tiebreak=tb, transfer="random"), "random"
    if rule == "SequentialRCV":
        return "SequentialRCV", dict(m=m, quota=q, simultaneous=sim, tiebreak=tb), "full"
    if rule == "IRV":
        return "IRV", dict(quota=q, tiebreak=tb), "fractional"
    raise ValueError(rule)


def weak_profiles(tier):
    c3 = fam.cands(3)
    W3 = fam.weak_family(3)
    if tier == "quick":
        return fam.prof_list(W3, 2, (1, 2), c3)
    return fam.prof_list(W3, 2, (1, 2, 3), c3) + fam.prof_list(fam.weak_family(2), 3, (1, 2), fam.cands(2))


def zero_ballot_cases():
    return [(fam.cands(n), ()) for n in (1, 2, 3)]


def score_types(n, values):
    cs = fam.cands(n)
    out = []
    for vals in itertools.product(values, repeat=n):
        d = tuple((c, v) for c, v in zip(cs, vals) if v != 0)
        if d:
            out.append(d)
    return out


def score_profiles(tier):
    """Score-ballot profile cases: (candidates, ((scores tuple, weight), ...))."""
    out = []
    if tier == "quick":
        vals = (0, 1, 2)
        for n, K in ((2, 2), (3, 2)):
            ts = score_types(n, vals)
            out += fam.prof_list(ts, K, (1, 2), fam.cands(n))
        ts = score_types(3, (0, H, 1))
        out += fam.prof_list(ts, 1, (1, H), fam.cands(3))
    else:
        vals = (0, H, 1, 2)
        ts = score_types(2, vals)
        out += fam.prof_list(ts, 3, (1, 2), fam.cands(2))
        ts = score_types(3, (0, 1, 2))
        out += fam.prof_list(ts, 2, (1, 2, H), fam.cands(3))
        ts = score_types(3, (0, H, 1))
        out += fam.prof_list(ts, 2, (1, 2), fam.cands(3))
    return out


def score_totals(case):
    cs, bl = case
    tot = {c: Fraction(0) for c in cs}
    for sc, w in bl:
        for c, v in sc:
            tot[c] += Fraction(v) * Fraction(w)
    return tot


def score_rule_configs(n):
    """(rule, kwargs) for the five score-rule classes."""
    for m in range(1, n + 1):
        for tb in (None, "random"):
            for L in (1, 2):
                yield "Rating", dict(m=m, L=L, tiebreak=tb)
            yield "Approval", dict(m=m, tiebreak=tb)
            for k in range(1, m + 1):
                yield "Limited", dict(m=m, k=k, tiebreak=tb)
            yield "Cumulative", dict(m=m, tiebreak=tb)
            for k in (None, 1, 2):
                yield "BlocPlurality", dict(m=m, k=k, tiebreak=tb)


def score_ballot_valid(sc, L, k):
    vals = [Fraction(v) for _, v in sc if v != 0]
    if not vals:
        return False
    if any(v < 0 for v in vals) or any(v > L for v in vals):
        return False
    if k is not None and sum(vals) > k:
        return False
    return True


def score_rule_limits(rule, kw):
    """(L, k) enforced by the rule class for these kwargs."""
    m = kw.get("m", 1)
    if rule == "Rating":
        return kw.get("L", 1), None
    if rule == "Approval":
        return 1, None
    if rule == "Limited":
        return kw.get("k", 1), kw.get("k", 1)
    if rule == "Cumulative":
        return m, m
    if rule == "BlocPlurality":
        return 1, (kw.get("k") or m)
    raise ValueError(rule)
